"""Independent reference for C13/C14/C15: a textbook Vixie-cron matcher for the numeric
five-field grammar, seeded expression / offset / instant generators, and the three-case
statement of C14. Uses zoneinfo (never pytz) for zone conversion."""
from __future__ import annotations

import calendar
from datetime import datetime, timedelta, timezone
from typing import Any, List, Optional, Tuple
from zoneinfo import ZoneInfo

UTC = timezone.utc
EPOCH = datetime(1970, 1, 1, tzinfo=UTC)

ZONES = ["Europe/Berlin", "America/New_York", "Asia/Kathmandu", "Asia/Kolkata", "Australia/Adelaide", "Australia/Lord_Howe",
         "Pacific/Auckland", "America/St_Johns", "Asia/Tokyo", "UTC", "America/Sao_Paulo", "Pacific/Chatham", "Europe/London"]

FIELDS = [(0, 59), (0, 23), (1, 31), (1, 12), (0, 6)]


def from_us(us: int) -> datetime:
    return EPOCH + timedelta(microseconds=us)


def to_us(t: datetime) -> int:
    d = t - EPOCH
    return (d.days * 86400 + d.seconds) * 1_000_000 + d.microseconds


# ---------------------------------------------------------------- expressions
def gen_element(r: Any, lo: int, hi: int) -> str:
    c = r.randint(0, 3)
    if c <= 1:
        return str(r.randint(lo, hi))
    a = r.randint(lo, hi)
    b = r.randint(a, hi)
    if c == 2:
        return f"{a}-{b}"
    return f"{a}-{b}/{r.randint(1, max(1, min(12, hi - lo)))}"


def gen_field(r: Any, lo: int, hi: int, p_star: float = 0.45) -> str:
    x = r.random()
    if x < p_star:
        return "*"
    if x < p_star + 0.15:
        return f"*/{r.randint(1, max(1, min(15, hi - lo + 1)))}"
    if x < p_star + 0.15 + 0.07 * (1 - p_star):
        # the whole range written out ("1-31", "0-6/2"): matches like "*" but is not a wildcard for the day-of-month / day-of-week rule
        return f"{lo}-{hi}" + (f"/{r.randint(1, 3)}" if r.random() < 0.4 else "")
    return ",".join(gen_element(r, lo, hi) for _ in range(r.choice([1, 1, 2, 3])))


def gen_expr(r: Any, dense: bool = False) -> str:
    """dense=True biases towards expressions that match often (useful in short loop runs)."""
    ps = [0.25, 0.6, 0.7, 0.75, 0.7] if not dense else [0.4, 0.85, 0.9, 0.9, 0.9]
    f = [gen_field(r, lo, hi, p) for (lo, hi), p in zip(FIELDS, ps)]
    if r.random() < 0.08:
        # day-of-month / day-of-week interplay: one of the two written as its whole range (not a wildcard), the other restricted
        full, other = (2, 4) if r.random() < 0.5 else (4, 2)
        lo, hi = FIELDS[full]
        f[full] = f"{lo}-{hi}" + (f"/{r.randint(1, 2)}" if r.random() < 0.3 else "")
        if f[other].startswith("*"):
            f[other] = gen_element(r, *FIELDS[other])
    return " ".join(f)


def field_values(expr: str, lo: int, hi: int) -> set:
    out: set = set()
    for el in expr.split(","):
        el = el.strip()
        if el == "*":
            out.update(range(lo, hi + 1))
        elif el.startswith("*/"):
            out.update(range(lo, hi + 1, int(el[2:])))
        elif "-" in el:
            rng, _, step = el.partition("/")
            a, b = rng.split("-")
            out.update(range(int(a), int(b) + 1, int(step) if step else 1))
        else:
            out.add(int(el))
    return out


def cron_matches(expr: str, t: datetime) -> bool:
    """Vixie semantics on the local broken-down time t (dow 0 = Sunday)."""
    mi, ho, dom, mon, dow = expr.split(" ")
    if t.minute not in field_values(mi, 0, 59):
        return False
    if t.hour not in field_values(ho, 0, 23):
        return False
    if t.month not in field_values(mon, 1, 12):
        return False
    dom_ok = t.day in field_values(dom, 1, 31)
    dow_ok = ((t.weekday() + 1) % 7) in field_values(dow, 0, 6)
    if dom.startswith("*") or dow.startswith("*"):
        return dom_ok and dow_ok
    return dom_ok or dow_ok


def shifted(now_utc: datetime, offset: Any) -> datetime:
    """offset: None | {"td_s": seconds} | {"zone": name}"""
    if offset is None:
        return now_utc
    if "td_s" in offset:
        if offset["td_s"] == 0:
            return now_utc
        return now_utc + timedelta(seconds=offset["td_s"])
    return now_utc.astimezone(ZoneInfo(offset["zone"]))


def gen_offset(r: Any) -> Any:
    c = r.randint(0, 5)
    if c <= 1:
        return None
    if c <= 3:
        s = r.randint(-104, 104) * 900
        if r.random() < 0.25:
            s += r.choice([1, -1, 30, 59, 61, 3599])
        return {"td_s": s}
    return {"zone": r.choice(ZONES)}


def zones_agree(zone: str, now_utc: datetime) -> bool:
    import pytz
    return now_utc.astimezone(ZoneInfo(zone)).utcoffset() == now_utc.astimezone(pytz.timezone(zone)).utcoffset()


def dst_transition_days(zone: str, year: int) -> List[datetime]:
    """UTC midnights of days on which the zone's UTC offset changes."""
    z = ZoneInfo(zone)
    out = []
    t = datetime(year, 1, 1, tzinfo=UTC)
    prev = t.astimezone(z).utcoffset()
    for _ in range(366):
        nxt = t + timedelta(days=1)
        off = nxt.astimezone(z).utcoffset()
        if off != prev:
            out.append(t)
        prev = off
        t = nxt
    return out


# ------------------------------------------------------------------------- C14
def c14_expect(now_us: int, t_us: int) -> Tuple[str, Any]:
    """The statement itself. Returns ("zero",) | ("none",) | ("delay", lo, hi) (inclusive int bounds)."""
    if t_us <= now_us:
        return ("zero", None)
    now = from_us(now_us)
    floor_min = now.replace(second=0, microsecond=0)
    horizon_us = to_us(floor_min) + 61_000_000
    if t_us > horizon_us:
        return ("none", None)
    # int d with T <= now + d < T + 1 s
    diff = t_us - now_us
    lo = -(-diff // 1_000_000)            # ceil
    hi = (diff + 999_999) // 1_000_000    # largest d with now+d < T+1s  <=> d*1e6 < diff+1e6
    return ("delay", (lo, hi))

"""Seed derivation: one integer decides everything."""
from __future__ import annotations

import hashlib
import random


def run_seed(batch_seed: int, prop: str, index: int) -> int:
    h = hashlib.sha256(f"{batch_seed}:{prop}:{index}".encode()).digest()
    return int.from_bytes(h[:8], "big")


def stream(seed: int, name: str) -> random.Random:
    h = hashlib.sha256(f"{seed}:{name}".encode()).digest()
    return random.Random(int.from_bytes(h[:8], "big"))

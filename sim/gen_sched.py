"""Seeded generator of scheduler-world scenario scripts."""
from __future__ import annotations

from datetime import datetime, timedelta
from typing import Any, Dict, List, Optional

from .cronref import UTC, ZONES, dst_transition_days, gen_expr, gen_offset, to_us
from .rng import stream

DEFAULT = {
    "horizon_min": (3, 12),
    "n_sources": [1, 1, 2, 3],
    "p_label_source": 0.3,
    "n_sched": (0, 4),
    "p_oneshot": 0.5,
    "p_faults": 0.5,
    "p_list_fail": 0.15,
    "p_send_fail": 0.12,
    "p_send_delay": 0.3,
    "p_list_delay": 0.3,
    "p_ops": 0.4,
    "p_cancel": 0.08,
    "dense_cron": True,
}

LABEL_VALUES = [["int", "5"], ["str", "x"], ["bool", True], ["float", "1.5"], ["bytes", "/w=="], ["str", "héllo"], ["int", "-9223372036854775808"]]
TIME_REPRS = ["naive", "naive", "utc", "fixed:330", "fixed:-480", "pytz:Europe/Berlin", "zi:America/New_York", "pytz:Asia/Kathmandu", "zi:Australia/Lord_Howe",
              "zi:Europe/Berlin", "fixeds:30", "fixeds:-3599", "pytzraw:Europe/Moscow", "pytzraw:Asia/Kolkata"]


def gen_start(r: Any) -> int:
    c = r.randint(0, 5)
    if c == 0:
        z = r.choice(ZONES)
        days = dst_transition_days(z, r.randint(2016, 2034))
        if days:
            base = r.choice(days) + timedelta(hours=r.randint(0, 47), minutes=r.randint(0, 59))
        else:
            base = datetime(2024, 3, 1, tzinfo=UTC)
    elif c == 1:
        base = r.choice([datetime(2024, 2, 28, 23, 55, tzinfo=UTC), datetime(2023, 12, 31, 23, 57, tzinfo=UTC),
                         datetime(2024, 2, 29, 11, 58, tzinfo=UTC), datetime(2025, 1, 31, 23, 58, tzinfo=UTC)])
    else:
        base = datetime(2015, 1, 1, tzinfo=UTC) + timedelta(minutes=r.randint(0, 20 * 365 * 24 * 60))
    base = base.replace(second=0, microsecond=0)
    c = r.randint(0, 5)
    if c == 0:
        off = 0
    elif c == 1:
        off = r.choice([1, 999_999, 1_000_000, 500_000])
    elif c == 2:
        off = r.randint(58_000_000, 59_400_000)
    else:
        off = r.randint(0, 59_400_000)
    return to_us(base) + off


def gen_labels(r: Any) -> Dict[str, Any]:
    return {f"l{i}": r.choice(LABEL_VALUES) for i in range(r.randint(0, 3))}


def gen_oneshot_time(r: Any, start_us: int, horizon_us: int) -> dict:
    minute0 = start_us - start_us % 60_000_000
    nb = max(1, horizon_us // 60_000_000)
    c = r.randint(0, 9)
    b = minute0 + 60_000_000 * r.randint(1, nb)
    if c == 0:
        t = start_us - r.choice([1, 1_000_000, 3_600_000_000, 90_000_000])       # already past
    elif c == 1:
        t = b                                                                    # exactly on a boundary
    elif c == 2:
        t = b + r.choice([1, 500_000, 999_999, 1_000_000, 1_000_001, r.randint(1, 1_000_000)])   # (boundary, boundary + 1 s]
    elif c == 3:
        t = b - r.choice([1, 100_000, 999_999, 1_000_000, r.randint(1, 1_500_000)])             # :59.x
    elif c == 4:
        t = b + 1_000_000 * r.randint(1, 58)                                     # whole second
    elif c == 5:
        t = start_us + r.choice([0, 1, 999_999, 1_000_000, 61_000_000])
    else:
        t = start_us + r.randint(0, horizon_us)
    return {"us": t, "repr": r.choice(TIME_REPRS)}


def gen_sched(r: Any, sid: str, kn: dict, start_us: int, horizon_us: int, oneshot: Optional[bool] = None) -> dict:
    s: Dict[str, Any] = {"id": sid, "task": f"st{r.randint(0, 2)}", "args": [r.randint(0, 9)] if r.random() < 0.5 else [],
                         "kwargs": {"kw": r.choice([1, "v", None, [1, 2]])} if r.random() < 0.4 else {}, "labels": gen_labels(r)}
    if oneshot is None:
        oneshot = r.random() < kn["p_oneshot"]
    if oneshot:
        s["time"] = gen_oneshot_time(r, start_us, horizon_us)
        if r.random() < kn.get("p_oneshot_offset", 0.15):
            s["offset"] = gen_offset(r)       # a one-shot that also carries a cron_offset
    else:
        s["cron"] = gen_expr(r, dense=kn["dense_cron"])
        s["offset"] = gen_offset(r)
        if r.random() < kn.get("p_invalid_cron", 0.03):
            # an expression that cannot be parsed (wrong number of fields): matches no minute, must not disturb the other schedules
            s["cron"] = r.choice(["abc", "* * * *", "* * * * * *", ""])
            s["invalid_cron"] = True
        import random as _random
        ra = _random.Random(f"also_time:{sid}:{s['cron']}:{start_us}:{horizon_us}")      # its own stream: no draw taken from r
        if ra.random() < kn.get("p_cron_with_time", 0.12):
            # legal: a schedule that carries both; the cron expression governs, the instant is ignored (it may be long past)
            s["also_time"] = {"us": start_us + ra.randint(-3_600_000_000, horizon_us), "repr": ra.choice(TIME_REPRS)}
    return s


def gen_sched_script(rs: int, knobs: Optional[dict] = None) -> dict:
    kn = dict(DEFAULT)
    if knobs:
        kn.update(knobs)
    r = stream(rs, "sched")
    faults = r.random() < kn["p_faults"]
    start_us = gen_start(r)
    horizon_us = r.randint(*kn["horizon_min"]) * 60_000_000 + r.randint(0, 59_000_000)
    cpu_on = r.random() < 0.7
    sources: List[dict] = []
    nsrc = r.choice(kn["n_sources"])
    n = 0
    kicks: Dict[str, Any] = {}
    label_used = False
    for i in range(nsrc):
        if not label_used and r.random() < kn["p_label_source"]:
            label_used = True
            tasks = []
            for ti in range(r.randint(1, 3)):
                entries = []
                for _ in range(r.randint(0, 3)):
                    sid = f"S{n}"
                    n += 1
                    e = gen_sched(r, sid, kn, start_us, horizon_us)
                    ent: Dict[str, Any] = {"id": sid, "args": e["args"], "kwargs": e["kwargs"]}
                    if "cron" in e:
                        ent["cron"] = e["cron"]
                        ent["offset"] = e["offset"]
                        if e.get("invalid_cron"):
                            ent["invalid_cron"] = True
                    else:
                        ent["time"] = e["time"]
                        if e.get("offset") is not None:
                            ent["offset"] = e["offset"]
                    if r.random() < 0.3:
                        ent["labels"] = gen_labels(r)
                    entries.append(ent)
                if r.random() < 0.2:
                    entries.insert(r.randint(0, len(entries)), {"args": ["invalid-entry"]})
                tasks.append({"name": f"lt{ti}", "schedule": entries, "labels": gen_labels(r), "foreign": r.random() < 0.15})
            sources.append({"kind": "label", "tasks": tasks})
            continue
        src: Dict[str, Any] = {"kind": "scripted", "schedules": [], "remove_oneshot": True, "async_hooks": r.random() < 0.5}
        if src["async_hooks"]:
            src["hook_us"] = r.choice([0, 1, 500, 20_000])
        for _ in range(r.randint(*kn["n_sched"])):
            sid = f"S{n}"
            n += 1
            src["schedules"].append(gen_sched(r, sid, kn, start_us, horizon_us))
        if r.random() < kn["p_list_delay"]:
            src["list_delay_us"] = r.choice([1, 1000, 50_000, 200_000, 300_000])
        if stream(rs, f"live_list:{len(sources)}").random() < 0.25:
            src["live_list"] = True          # get_schedules() hands out the source's own list; post_send removes sent one-shots from it
        if faults and r.random() < 0.6:
            npolls = horizon_us // 60_000_000 + 2
            src["fail_calls"] = sorted({r.randint(0, npolls) for _ in range(r.randint(1, 3)) if r.random() < 0.7 or True})
            if r.random() > kn["p_list_fail"] * 4:
                src["fail_calls"] = []
        if faults and src["schedules"] and r.random() < kn["p_cancel"] * 3:
            src["cancel"] = [r.choice(src["schedules"])["id"]]
        sources.append(src)
    ops: List[dict] = []
    scripted = [i for i, s in enumerate(sources) if s["kind"] == "scripted"]
    if scripted and r.random() < kn["p_ops"]:
        for _ in range(r.randint(1, 3)):
            si = r.choice(scripted)
            if r.random() < 0.7 or not sources[si]["schedules"]:
                sid = f"S{n}"
                n += 1
                at = r.randint(0, horizon_us)
                sc = gen_sched(r, sid, kn, start_us, horizon_us)
                if r.random() < 0.4:
                    # created through task.kicker().schedule_by_time / schedule_by_cron (a CronSpec carries the offset)
                    sc["cronspec"] = sc.get("cron") is not None and (sc.get("offset") is not None or r.random() < 0.5) and not sc.get("invalid_cron")
                    if sc.get("cron") is not None and not sc["cronspec"]:
                        sc["offset"] = None
                    cop = {"op": "create", "source": si, "at_us": at, "sched": sc}
                    if r.random() < 0.25:
                        cop["unschedule_after_us"] = r.choice([0, 1, 1_000_000, 30_000_000, 90_000_000])
                    ops.append(cop)
                else:
                    ops.append({"op": "add", "source": si, "at_us": at, "sched": sc})
            else:
                ops.append({"op": "remove", "source": si, "at_us": r.randint(0, horizon_us), "id": r.choice(sources[si]["schedules"])["id"]})
    all_ids = [f"S{i}" for i in range(n)]
    if r.random() < kn["p_send_delay"]:
        kicks["default_delay_us"] = r.choice([1, 1000, 100_000, 900_000, 1_000_000, 2_000_000])
    for sid in all_ids:
        if r.random() < 0.2:
            lst = []
            for _ in range(r.randint(1, 4)):
                sp: Dict[str, Any] = {}
                if r.random() < kn["p_send_delay"]:
                    sp["delay_us"] = r.choice([1, 1000, 100_000, 900_000, 1_500_000, 2_000_000])
                    if r.random() < 0.2:
                        sp["delay_us"] = r.choice([61_000_000, 100_000_000, 125_000_000])     # a send that is in flight across one or two later polls
                if faults and r.random() < kn["p_send_fail"] * 3:
                    sp["fail"] = True
                lst.append(sp)
            lst.append({})
            kicks[sid] = lst
    if faults and r.random() < 0.06:
        # directed: a one-shot whose send is still in flight (slow broker) while a later poll of its source fails to list
        cands = [(i, sc) for i, src in enumerate(sources) if src["kind"] == "scripted" for sc in src["schedules"] if sc.get("time") is not None]
        if cands:
            i, sc = r.choice(cands)
            kicks[sc["id"]] = [{"delay_us": r.choice([70_000_000, 100_000_000, 125_000_000])}, {}]
            # poll indices after the one in which it becomes due
            due_poll = max(0, (sc["time"]["us"] - start_us) // 60_000_000)
            sources[i]["fail_calls"] = sorted(set(sources[i].get("fail_calls", [])) | {int(due_poll) + r.choice([1, 2])})
    # keep a poll from straddling a minute boundary (listing latency / cpu stalls at :59.9)
    max_list = max([s.get("list_delay_us", 0) for s in sources] + [0])
    sec_us = start_us % 60_000_000
    if (max_list or cpu_on) and sec_us > 59_400_000 - max_list:
        start_us -= sec_us - (59_400_000 - max_list)
    tz = r.choice(["UTC", "UTC", "Etc/GMT-3", "Etc/GMT+7", "Asia/Kathmandu", "Asia/Tokyo", "America/Phoenix"])
    from .sched_world import TZ_OFFSETS
    return {"world": "sched", "run_seed": rs, "start": {"epoch_us": start_us, "local_off_min": TZ_OFFSETS[tz], "tz": tz},
            "horizon_us": horizon_us, "entry": r.choice(["loop", "loop", "task", "cli", "cli_skip"]), "sources": sources, "ops": ops, "kicks": kicks,
            "cpu": {"on": cpu_on}, "faults": faults}

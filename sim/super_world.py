"""Supervisor world: the real ProcessManager.start() against a fake process table, queue,
tick clock, os.kill and signal delivery. Synchronous; every call on a fake is an
interception point at which the scenario script may kill children, deliver signals or fire
the file-watcher callback.
"""
from __future__ import annotations

import hashlib
import json
import logging
import signal as real_signal
import sys
import types
from typing import Any, Dict, List, Optional

import taskiq.cli.worker.process_manager as pm

from .rng import stream


class SimStop(BaseException):
    """Unwinds ProcessManager.start() when the scenario is over."""


class FakeProcess:
    def __init__(self, sim: "SuperSim", target: Any = None, kwargs: Any = None, name: str = "", daemon: bool = False, **_: Any) -> None:
        self._sim = sim
        self._name = name
        self._pid: Optional[int] = None
        self._exitcode: Optional[int] = None
        self.state = "new"          # new | live | terminating | zombie | reaped
        self.idx = len(sim.procs)
        sim.procs.append(self)
        sim.point("proc_new", idx=self.idx, name=name)

    @property
    def name(self) -> str:
        return self._name

    @property
    def pid(self) -> Optional[int]:
        self._sim.point("pid_read", idx=self.idx)
        return self._pid

    @property
    def exitcode(self) -> Optional[int]:
        s = self._sim
        s.point("exitcode_read", idx=self.idx)
        if self.state == "zombie":
            self.state = "reaped"       # reading exitcode polls the child, like is_alive()
            s.rec("reap", idx=self.idx, via="exitcode")
        if self.state == "reaped":
            return self._exitcode
        return None

    def start(self) -> None:
        s = self._sim
        s.point("start_call", idx=self.idx, name=self._name)
        s.next_pid += 1
        self._pid = s.next_pid
        self.state = "live"
        s.rec("start", idx=self.idx, name=self._name, pid=self._pid)
        s.point("start_done", idx=self.idx, name=self._name)

    def is_alive(self) -> bool:
        s = self._sim
        s.point("is_alive_call", idx=self.idx)
        if self.state == "zombie":
            self.state = "reaped"
            s.rec("reap", idx=self.idx, via="is_alive")
        res = self.state in ("live", "terminating")
        s.rec("is_alive", idx=self.idx, res=res)
        return res

    def terminate(self) -> None:
        s = self._sim
        s.point("terminate_call", idx=self.idx)
        if self.state == "live":
            self.state = "terminating"
        s.rec("terminate", idx=self.idx, state=self.state)

    def join(self, timeout: Any = None) -> None:
        s = self._sim
        s.point("join_call", idx=self.idx)
        if self.state == "live":
            # nobody asked this child to exit: a real join() would block forever
            s.rec("join_blocks", idx=self.idx)
            raise SimStop("join on a live child that was never terminated")
        if self.state in ("terminating", "zombie"):
            if self.state == "terminating" and self._exitcode is None:
                self._exitcode = -15
            self.state = "reaped"
            s.rec("reap", idx=self.idx, via="join")
        s.rec("join", idx=self.idx)


class FakeEvent:
    def __init__(self, sim: "SuperSim") -> None:
        self._sim = sim

    def wait(self, timeout: Any = None) -> bool:
        self._sim.point("event_wait")
        return False

    def set(self) -> None:
        return None

    def is_set(self) -> bool:
        return False


class FakeQueue:
    """multiprocessing.Queue: FIFO; an item may be invisible to empty() for a while (feeder thread)."""

    def __init__(self, sim: "SuperSim", maxsize: int = 0) -> None:
        self._sim = sim
        self.items: List[list] = []     # [item, visible]

    def put(self, item: Any, *a: Any, **k: Any) -> None:
        s = self._sim
        lag = s.next_lag()
        s.rec("put", item=describe(item), lag=lag, in_handler=s.in_handler, phase=s.phase)
        self.items.append([item, lag == 0, lag])
        s.point("put_done")

    def _age(self) -> None:
        for it in self.items:
            if not it[1]:
                it[2] -= 1
                if it[2] <= 0:
                    it[1] = True

    def empty(self) -> bool:
        s = self._sim
        s.point("empty_call")
        res = not (self.items and self.items[0][1])
        s.rec("empty", res=res)
        if res:
            s.phase = "scan"
        return res

    def get(self, *a: Any, **k: Any) -> Any:
        s = self._sim
        s.point("get_call")
        if not self.items:
            s.rec("get_blocks")
            raise SimStop("get on an empty queue")
        item = self.items.pop(0)[0]
        s.rec("get", item=describe(item))
        return item

    def flush_all(self) -> None:
        for it in self.items:
            it[1] = True


def describe(item: Any) -> dict:
    d = {"type": type(item).__name__}
    if isinstance(item, pm.ReloadOneAction):
        d["slot"] = item.worker_num
        d["reload_all"] = item.is_reload_all
    return d


class SuperSim:
    def __init__(self, script: dict) -> None:
        self.script = script
        self.procs: List[FakeProcess] = []
        self.events: List[list] = []
        self.tick = 0
        self.k = 0
        self.npoints = 0
        self.next_pid = 1000
        self.handlers: Dict[int, Any] = {}
        self.queue: Optional[FakeQueue] = None
        self.manager: Any = None
        self.in_handler = False
        self.in_point = False
        self.phase = "init"        # init | drain | scan
        self.inject: Dict[Any, List[dict]] = {}
        for ev in script.get("events", []):
            self.inject.setdefault((ev["tick"], ev["k"]), []).append(ev)
        self.lag_rng = stream(script.get("run_seed", 0), "lag")
        self.term_rng = stream(script.get("run_seed", 0), "term")
        self.fault_counts: Dict[str, int] = {}
        self.violations_inline: List[dict] = []
        self.closed = False

    def fired(self, k: str) -> None:
        self.fault_counts[k] = self.fault_counts.get(k, 0) + 1

    def rec(self, kind: str, **kw: Any) -> None:
        if self.closed:
            return
        self.events.append([len(self.events), self.tick, self.k, kind, kw])

    def next_lag(self) -> int:
        if not self.script.get("queue_lag"):
            return 0
        x = self.lag_rng.random()
        if x < 0.6:
            return 0
        self.fired("queue_lag")
        return self.lag_rng.randint(1, 6)

    # ---------------------------------------------------------- interception
    def point(self, label: str, **kw: Any) -> None:
        """An interception point: a place where the outside world may act."""
        if self.in_point:
            return
        self.npoints += 1
        if self.npoints > self.script.get("max_points", 20_000):
            raise SimStop("point cap")
        key = (self.tick, self.k)
        self.k += 1
        if self.queue is not None:
            self.queue._age()
        self.snapshot(label)
        evs = self.inject.get(key)
        if not evs:
            return
        self.in_point = True
        try:
            for ev in evs:
                self.apply(ev)
        finally:
            self.in_point = False
        self.snapshot("after_inject")

    def snapshot(self, label: str) -> None:
        # C17 invariant inputs: live processes per slot name at this very point
        live: Dict[str, int] = {}
        for p in self.procs:
            if p.state in ("live", "terminating"):
                live[p.name] = live.get(p.name, 0) + 1
        nslots = len(self.manager.workers) if self.manager is not None else None
        self.rec("pt", label=label, live=live, nslots=nslots)

    def apply(self, ev: dict) -> None:
        kind = ev["ev"]
        if kind == "die":
            cur = self.current(ev["slot"])
            if cur is not None and cur.state in ("live", "terminating"):
                cur.state = "zombie"
                cur._exitcode = ev.get("code", 1)
                self.fired("child_death")
                self.rec("inject_die", slot=ev["slot"], idx=cur.idx, pid=cur._pid, code=cur._exitcode)
            return
        if kind in ("SIGHUP", "SIGINT", "SIGTERM"):
            signum = getattr(real_signal, kind)
            h = self.handlers.get(signum)
            self.fired(kind)
            self.rec("inject_signal", sig=kind, handled=h is not None)
            if h is not None:
                self.in_handler = True
                try:
                    h(signum, None)
                finally:
                    self.in_handler = False
            return
        if kind == "file_change":
            self.fired("file_change")
            self.rec("inject_file_change")
            if self.manager is not None:
                self.in_handler = True
                try:
                    pm.schedule_workers_reload(self.manager.action_queue)
                finally:
                    self.in_handler = False

    def current(self, slot: int) -> Optional[FakeProcess]:
        """The newest process created for this slot."""
        name = f"worker-{slot}"
        for p in reversed(self.procs):
            if p.name == name and p.state != "new":
                return p
        return None

    # -------------------------------------------------------------- fakes
    def sleep(self, secs: float) -> None:
        self.point("sleep_call")
        self.tick += 1
        self.k = 0
        self.phase = "drain"
        if self.queue is not None:
            self.queue.flush_all()
        # a worker that was sent SIGTERM (terminate()) and is not waited for exits on its own before long
        for p in self.procs:
            if p.state == "terminating" and self.term_rng.random() < 0.7:
                p.state = "zombie"
                p._exitcode = -15
                self.rec("terminated_exit", idx=p.idx, name=p.name)
        self.rec("sleep")
        if self.tick > self.script["ticks"] + 4:
            raise SimStop("scenario over")
        if self.tick == self.script["ticks"] and not self.script.get("no_final_sigint"):
            # the scenario ends with an operator SIGINT so that start() can return
            self.in_point = True
            try:
                self.apply({"ev": "SIGINT"})
            finally:
                self.in_point = False
            if self.queue is not None:
                self.queue.flush_all()

    def os_kill(self, pid: int, sig: int) -> None:
        self.point("kill_call", pid=pid)
        target = None
        for p in self.procs:
            if p._pid == pid:
                target = p
        if target is None:
            self.rec("os_kill", pid=pid, sig=int(sig), res="foreign")
            return
        if target.state == "reaped":
            if self.script.get("pid_reuse"):
                self.rec("os_kill", pid=pid, sig=int(sig), res="foreign-reused", idx=target.idx)
                return
            self.rec("os_kill", pid=pid, sig=int(sig), res="ProcessLookupError", idx=target.idx)
            raise ProcessLookupError(3, "No such process")
        self.rec("os_kill", pid=pid, sig=int(sig), res="delivered", idx=target.idx, state=target.state)


class SupRun:
    def __init__(self) -> None:
        self.events: List[list] = []
        self.end = ""
        self.ret: Any = "unset"
        self.exc: Optional[str] = None
        self.fault_counts: Dict[str, int] = {}
        self.steps = 0
        self.sim_us = 0
        self.extra: Dict[str, Any] = {}
        self.script: dict = {}

    def digest(self) -> str:
        return hashlib.sha256(json.dumps([self.events, repr(self.ret), self.exc], sort_keys=True, default=repr).encode()).hexdigest()


_installed = False


def install_seams() -> None:
    global _installed
    if _installed:
        return
    _installed = True
    logging.disable(logging.CRITICAL)


def simulate(script: dict) -> SupRun:
    install_seams()
    sim = SuperSim(script)
    saved = {n: getattr(pm, n) for n in ("Process", "Event", "Queue", "sleep", "os", "signal", "current_process")}

    def mk_queue(maxsize: int = 0) -> FakeQueue:
        q = FakeQueue(sim, maxsize)
        sim.queue = q
        return q

    fake_os = types.SimpleNamespace(kill=sim.os_kill, getpid=lambda: 1)
    fake_signal = types.SimpleNamespace(
        SIGINT=real_signal.SIGINT, SIGTERM=real_signal.SIGTERM, SIGHUP=real_signal.SIGHUP,
        signal=lambda signum, handler: sim.handlers.__setitem__(int(signum), handler),
    )
    pm.Process = lambda **kw: FakeProcess(sim, **kw)  # type: ignore[assignment,misc]
    pm.Event = lambda: FakeEvent(sim)  # type: ignore[assignment,misc]
    pm.Queue = mk_queue  # type: ignore[assignment,misc]
    pm.sleep = sim.sleep  # type: ignore[assignment]
    pm.os = fake_os  # type: ignore[assignment]
    pm.signal = fake_signal  # type: ignore[assignment]
    pm.current_process = lambda: types.SimpleNamespace(name="MainProcess")  # type: ignore[assignment]
    run = SupRun()
    run.script = script
    try:
        # the manager's configuration comes from the real command-line parser of `taskiq worker`
        from taskiq.cli.worker.args import WorkerArgs
        try:
            import contextlib
            import io
            with contextlib.redirect_stderr(io.StringIO()):
                args = WorkerArgs.from_cli(["sim:broker", "--workers", str(script["workers"]), "--max-fails", str(script["max_fails"])])
            manager = pm.ProcessManager(args=args, worker_function=lambda args: None, observer=None)  # type: ignore[arg-type]
        except BaseException as exc:  # noqa: BLE001   (argparse exits with SystemExit when it rejects the command line)
            run.end = "raised"
            run.exc = "configuration rejected: " + type(exc).__name__
            sim.rec("raise", exc=type(exc).__name__)
            run.events = sim.events
            return run
        sim.manager = manager
        try:
            run.ret = manager.start()
            run.end = "returned"
            sim.rec("return", value=run.ret)
        except SimStop as exc:
            run.end = "forced:" + str(exc)
            sim.rec("forced", why=str(exc))
        except Exception as exc:  # noqa: BLE001
            run.end = "raised"
            run.exc = type(exc).__name__
            sim.rec("raise", exc=type(exc).__name__)
    finally:
        for n, v in saved.items():
            setattr(pm, n, v)
        sim.closed = True
    run.events = sim.events
    run.fault_counts = dict(sim.fault_counts)
    run.steps = sim.npoints
    run.sim_us = sim.tick * 1_000_000
    run.extra["final_workers"] = len(sim.manager.workers) if sim.manager is not None else None
    return run


# ------------------------------------------------------------------- generator
def gen_super_script(rs: int, knobs: Optional[dict] = None) -> dict:
    kn = {"ticks": (3, 40), "workers": [1, 2, 3], "max_fails": [-1, 0, 1, 2, 3], "p_lag": 0.5, "n_events": (0, 10), "p_pid_reuse": 0.2,
          "weights": {"die": 6, "SIGHUP": 2, "file_change": 1, "SIGINT": 1, "SIGTERM": 1}, "short": 0.4}
    if knobs:
        kn.update(knobs)
    r = stream(rs, "super")
    workers = r.choice(kn["workers"])
    if r.random() < kn["short"]:
        ticks = r.randint(2, 5)
        n_ev = r.randint(0, 3)
    else:
        ticks = r.randint(*kn["ticks"])
        n_ev = r.randint(*kn["n_events"])
    kinds = [k for k, w in kn["weights"].items() for _ in range(w)]
    events = []
    for _ in range(n_ev):
        kind = r.choice(kinds)
        ev: Dict[str, Any] = {"ev": kind, "tick": r.randint(0, ticks), "k": r.randint(0, 6 + 8 * workers)}
        if kind == "die":
            ev["slot"] = r.randrange(workers)
            ev["code"] = r.choice([0, 0, 1, 1, 2, -9, -15, -11])   # clean exit (e.g. max-tasks-per-child), crash, killed
            if r.random() < 0.3 and events:
                # bias: next to another event (same tick, neighbouring point)
                o = r.choice(events)
                ev["tick"] = o["tick"]
                ev["k"] = max(0, o["k"] + r.choice([-2, -1, 0, 1, 2]))
        events.append(ev)
    events.sort(key=lambda e: (e["tick"], e["k"]))
    return {"world": "super", "run_seed": rs, "workers": workers, "max_fails": r.choice(kn["max_fails"]), "ticks": ticks,
            "events": events, "queue_lag": r.random() < kn["p_lag"], "pid_reuse": r.random() < kn["p_pid_reuse"]}

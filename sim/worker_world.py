"""Worker world: clients, a broker server, 1..3 real taskiq Receivers, a result store.

Everything taskiq-side is real code (Receiver, AsyncBroker base, AsyncKicker,
formatters, serializers, middlewares, taskiq_dependencies); the simulator owns the
loop, the clock, the transport, the store, the "thread pool" and the ids.

``simulate(script)`` -> ``Run`` (history + facts the oracles need).
"""
from __future__ import annotations

import asyncio
import base64
import contextvars
import gc
import hashlib
import inspect
import json
import logging
import pickle
import sys
import types
from collections import deque
from concurrent.futures import Executor, Future
from contextlib import asynccontextmanager, contextmanager
from typing import Any, AsyncGenerator, Dict, List, Optional

import taskiq
import taskiq.receiver.receiver as receiver_mod
import taskiq.task as task_mod
from taskiq import Context, TaskiqDepends, TaskiqMiddleware
from taskiq.abc.broker import AckableMessage, AsyncBroker
from taskiq.abc.result_backend import AsyncResultBackend
from taskiq.acks import AcknowledgeType
from taskiq.compat import model_dump, model_validate
from taskiq.exceptions import NoResultError
from taskiq.formatters.json_formatter import JSONFormatter
from taskiq.message import BrokerMessage
from taskiq.middlewares.retry_middleware import SimpleRetryMiddleware
from taskiq.receiver.receiver import Receiver
from taskiq.result import TaskiqResult
from taskiq.serializers.json_serializer import JSONSerializer
from taskiq.serializers.pickle import PickleSerializer

from .loop import NODE, Quiescent, SimLoop, SimStop, StepCap, TimeCap, make_cpu
from .rng import stream

DELIVERY: contextvars.ContextVar[Any] = contextvars.ContextVar("SIM_DELIVERY", default=None)
SENDING: contextvars.ContextVar[Any] = contextvars.ContextVar("SIM_SENDING", default=None)
SESSION: contextvars.ContextVar[Any] = contextvars.ContextVar("SIM_SESSION", default=0)     # one number per Receiver.listen() call

TASKS_MODULE = "simtasks"


class SimError(Exception):
    """Custom exception raised by scripted task bodies."""


class SimBaseError(BaseException):
    """Custom BaseException raised by scripted task bodies."""


class SimBadStr(Exception):
    """An exception that cannot be printed: str() on it raises."""

    def __str__(self) -> str:
        raise TypeError("this exception cannot be printed")


class SimFault(ConnectionError):
    """Injected transport / storage / hook fault."""


class SimFalsy(Exception):
    """An exception object whose truth value is False (an error aggregate that defines __len__ / __bool__ and is raised empty)."""

    def __bool__(self) -> bool:
        return False


class SimTimeout(TimeoutError):
    """A timeout raised by the task body itself (a client library's own timeout), not by the timeout label."""


EXC = {
    "ValueError": ValueError,
    "KeyError": KeyError,
    "RuntimeError": RuntimeError,
    "SimError": SimError,
    "KeyboardInterrupt": KeyboardInterrupt,
    "SystemExit": SystemExit,
    "SimBaseError": SimBaseError,
    "ZeroDivisionError": ZeroDivisionError,
    "SimBadStr": SimBadStr,
    "TimeoutError": TimeoutError,
    "SimTimeout": SimTimeout,
    "CancelledError": asyncio.CancelledError,
    "SimFalsy": SimFalsy,
}


def _kick_exc(name: str) -> BaseException:
    """The exception a failing broker.kick() raises: transport errors and the framework's own error classes."""
    import taskiq.exceptions as tex
    table = {"SimFault": SimFault, "RuntimeError": RuntimeError, "TimeoutError": TimeoutError, "OSError": OSError}
    if name in table:
        return table[name]("kick failed")
    cls = getattr(tex, name, None)
    if cls is None:
        return SimFault("kick failed")
    try:
        return cls(task_name="unknown-to-the-broker") if name == "UnknownTaskError" else cls()
    except Exception:  # noqa: BLE001  (constructor protocol of the error classes changed)
        return SimFault("kick failed")


# --------------------------------------------------------------------------- labels
def enc_label(v: Any) -> Any:
    """JSON-able, type-preserving encoding of a label value (script / history)."""
    if isinstance(v, bool):
        return ["bool", v]
    if isinstance(v, int):
        return ["int", str(v)]
    if isinstance(v, float):
        return ["float", repr(v)]
    if isinstance(v, bytes):
        return ["bytes", base64.b64encode(v).decode()]
    if isinstance(v, str):
        return ["str", v]
    return [type(v).__name__, repr(v)]


def dec_label(e: Any) -> Any:
    t, v = e
    if t == "bool":
        return bool(v)
    if t == "int":
        return int(v)
    if t == "float":
        return float(v)
    if t == "bytes":
        return base64.b64decode(v)
    if t == "str":
        return v
    raise ValueError(t)


def enc_labels(d: Dict[str, Any]) -> Dict[str, Any]:
    return {str(k): enc_label(v) for k, v in d.items()}


FRAMEWORK_LABELS = ("_retries", "X-Taskiq-requeue", "schedule_id", "chain")


# ------------------------------------------------------------------------- recorder
class Recorder:
    def __init__(self, world: "World") -> None:
        self.world = world
        self.events: List[list] = []
        self.closed = False
        self.counts: Dict[str, int] = {}
        self.triggers: List[dict] = []

    def rec(self, kind: str, d: Any = None, **kw: Any) -> None:
        if self.closed:
            return
        w = self.world
        ev = [len(self.events), w.loop.now_us, NODE.get(), kind, d, kw]
        self.events.append(ev)
        n = self.counts.get(kind, 0) + 1
        self.counts[kind] = n
        if self.triggers:
            w.fire_triggers(kind, n, d)
        w.on_event(kind, d)


class Delivery:
    __slots__ = ("id", "k", "raw", "obj", "worker", "gen", "acked", "ackable", "redelivery_of", "probe")

    def __init__(self, id: int, k: Any, raw: bytes) -> None:
        self.id = id
        self.k = k
        self.raw = raw
        self.obj: Any = None
        self.worker: Optional[int] = None
        self.gen = 0
        self.acked = False
        self.ackable = False
        self.redelivery_of: Optional[int] = None
        self.probe = False


class Server:
    """Broker server: one competing-consumers queue. Survives worker crashes."""

    def __init__(self, world: "World") -> None:
        self.world = world
        self.queue: deque = deque()
        self.waiters: List[Any] = []
        self.deliveries: List[Delivery] = []
        self.in_transit = 0
        self.enqueued = 0

    def enqueue(self, raw: bytes, k: Any, redelivery_of: Optional[int] = None, probe: bool = False) -> None:
        d = Delivery(len(self.deliveries), k, raw)
        d.redelivery_of = redelivery_of
        d.probe = probe
        self.deliveries.append(d)
        self.queue.append(d)
        self.enqueued += 1
        self.world.rec("enqueue", d.id, k=k, redelivery_of=redelivery_of)
        waiters, self.waiters = self.waiters, []
        for fut in waiters:
            if not fut.done():
                fut.set_result(None)

    def transit(self, delay_us: int, raw: bytes, k: Any, **kw: Any) -> None:
        self.in_transit += 1

        def arrive() -> None:
            self.in_transit -= 1
            self.enqueue(raw, k, **kw)

        self.world.loop.call_later_us(delay_us, arrive, context=self.world.server_ctx)


# --------------------------------------------------------------------------- broker
class SimBroker(AsyncBroker):
    def __init__(self, world: "World", node: str, worker: Optional[int] = None, gen: int = 0) -> None:
        super().__init__()
        self.world = world
        self.node = node
        self.worker = worker
        self.gen = gen

    async def kick(self, message: BrokerMessage) -> None:
        w = self.world
        k = w.k_of(message.task_id, message.task_name)
        n = w.kick_count.get(k, 0)
        w.kick_count[k] = n + 1
        net = w.net_spec(k, n)
        try:
            tm = self.formatter.loads(bytes(message.message))
            tm.parse_labels()
            typed: Any = enc_labels(tm.labels)
        except Exception as exc:  # noqa: BLE001
            typed = {"__undecodable__": ["str", type(exc).__name__]}
        w.rec("kick_call", None, k=k, n=n, task_id=message.task_id, task_name=message.task_name,
              labels=enc_labels(message.labels), typed=typed, via=self.node)
        if net.get("pre_us"):
            await asyncio.sleep(net["pre_us"] / 1e6)
        if net.get("fail"):
            w.fired("kick_fail")
            w.rec("kick_fail", None, k=k, n=n, exc=net.get("fail_exc", "SimFault"))
            raise _kick_exc(net.get("fail_exc", "SimFault"))
        raw = bytes(message.message)
        w.sent_raw.setdefault(k, []).append(raw)
        w.server.transit(net.get("delay_us", 0), raw, k)
        if net.get("delay_us", 0) > 0:
            w.fired("kick_delay")
        if net.get("dup"):
            w.fired("dup_delivery")
            w.server.transit(net.get("delay_us", 0) + net.get("dup_delay_us", 1), raw, k)
        w.rec("kick_ok", None, k=k, n=n)

    async def listen(self) -> AsyncGenerator[Any, None]:
        w = self.world
        srv = w.server
        loop = w.loop
        while True:
            while not srv.queue:
                fut = loop.create_future()
                srv.waiters.append(fut)
                try:
                    await fut
                finally:
                    if fut in srv.waiters:
                        srv.waiters.remove(fut)
            # pop + yield with no await in between: a cancelled look-ahead never
            # swallows a message.
            lf = w.config.get("listen_fail_after")
            if isinstance(lf, int):
                lf = [lf]
            nf = w.extra.get("listen_failed", 0)
            if lf is not None and self.worker is not None and nf < len(lf) and not w.extra.get("probe_started") \
                    and len(w.taken.get((self.worker, self.gen), [])) >= lf[nf]:
                w.extra["listen_failed"] = nf + 1
                w.fired("listen_fail")
                w.rec("listen_fail", None, w=self.worker)
                # messages sitting in the failed receiver's hand-over queue are gone with it (the runner is cancelled)
                for dl in w.taken.get((self.worker, self.gen), []):
                    if dl.id not in w.entered:
                        w.dropped.add(dl.id)
                raise SimFault("connection to the broker lost")
            le = w.config.get("listen_end_after")
            ne = w.extra.get("listen_ended", 0)
            if le is not None and self.worker is not None and ne < len(le) and not w.extra.get("probe_started") \
                    and len(w.taken.get((self.worker, self.gen), [])) >= le[ne]:
                # the broker ends the subscription in an orderly way (the stream is exhausted): no error, nothing is lost
                w.extra["listen_ended"] = ne + 1
                w.fired("listen_stream_end")
                w.rec("listen_end", None, w=self.worker)
                return
            d = srv.queue.popleft()
            d.worker = self.worker
            d.gen = self.gen
            w.taken.setdefault((self.worker, self.gen), []).append(d)
            ackable = w.ackable_for(d)
            d.ackable = ackable
            if ackable:
                d.obj = AckableMessage(data=d.raw, ack=w.make_ack(d))
            else:
                # payloads of 0 or 1 bytes are handed over as the interpreter's own (shared, interned) bytes objects, as a real
                # transport would produce them; longer ones as distinct objects
                d.obj = _DBytes(d.raw) if len(d.raw) > 1 else bytes(d.raw)
            if type(d.obj) is bytes:
                # a shared (interned) bytes object: several deliveries may be the very same object; they are handed to callback()
                # in the order in which they were taken
                w.shared_obj.setdefault((self.worker, self.gen, SESSION.get(), id(d.obj)), []).append(d)
            else:
                w.by_obj[id(d.obj)] = d
            w.rec("take", d.id, k=d.k, w=self.worker, ackable=ackable)
            yield d.obj


def make_inmemory(world: "World") -> Any:
    """The real InMemoryBroker (kick() calls Receiver.callback directly) with recording seams."""
    from taskiq.brokers.inmemory_broker import InMemoryBroker

    class SimInMemoryBroker(InMemoryBroker):
        async def kick(self, message: BrokerMessage) -> None:
            w = world
            k = w.k_of(message.task_id, message.task_name)
            n = w.kick_count.get(k, 0)
            w.kick_count[k] = n + 1
            w.rec("kick_call", None, k=k, n=n, task_id=message.task_id, task_name=message.task_name,
                  labels=enc_labels(message.labels), typed={}, via="inmemory")
            raw = message.message
            d = Delivery(len(w.server.deliveries), k, bytes(raw))
            w.server.deliveries.append(d)
            w.server.enqueued += 1
            d.obj = raw
            d.worker = 0
            w.by_obj[id(raw)] = d
            w.taken.setdefault((0, 0), []).append(d)
            w.rec("take", d.id, k=k, w=0, ackable=False)
            await super().kick(message)
            w.rec("kick_ok", None, k=k, n=n)

    cfg = world.config
    br = SimInMemoryBroker(
        cast_types=cfg.get("validate_params", True),
        propagate_exceptions=cfg.get("propagate", True),
        await_inplace=cfg.get("await_inplace", False),
    )
    br.executor.shutdown()
    br.executor = SimExecutor(world)
    br.receiver.executor = br.executor
    br.receiver.__class__ = RecReceiver      # observation only; constructor state (propagate switch) is kept
    RecReceiver.world = world
    br.with_id_generator(lambda: _gen_id(world))
    br.with_result_backend(SimResultBackend(world))
    mws: List[TaskiqMiddleware] = []
    for i, ms in enumerate(cfg.get("middlewares", [])):
        if ms.get("retry") is None:
            mws.append(make_middleware(world, i, ms))
    br.add_middlewares(*mws)
    for ts in world.tasks:
        labels = {k: dec_label(v) for k, v in ts.get("labels", {}).items()}
        br.register_task(make_task_func(world, ts), task_name=ts["name"], **labels)
    return br


class _DBytes(bytes):
    """bytes subclass so that every delivery is a distinct object."""


# ------------------------------------------------------------------- result backend
class SimResultBackend(AsyncResultBackend):  # type: ignore[type-arg]
    def __init__(self, world: "World") -> None:
        self.world = world

    async def set_result(self, task_id: str, result: TaskiqResult) -> None:  # type: ignore[type-arg]
        w = self.world
        d = DELIVERY.get()
        spec = w.save_spec(d)
        w.rec("save_enter", d, task_id=task_id, **summarize_result(result))
        if spec.get("delay_us"):
            w.fired("save_delay")
            await asyncio.sleep(spec["delay_us"] / 1e6)
        if spec.get("cancel"):
            w.fired("save_cancelled")
            w.rec("save_exit", d, ok=False, cancelled=True)
            raise asyncio.CancelledError()
        if spec.get("fail"):
            w.fired("save_fail")
            w.rec("save_exit", d, ok=False)
            raise SimFault("set_result failed")
        mode = w.config.get("store", "object")
        try:
            if mode == "json":
                blob: Any = JSONSerializer().dumpb(model_dump(result))
            elif mode == "pickle":
                blob = pickle.dumps(result)
            else:
                blob = result
        except Exception as exc:  # serialisation trouble is a storage failure
            w.rec("save_exit", d, ok=False, ser_error=type(exc).__name__)
            raise
        w.store[task_id] = (mode, blob, d)
        w.store_log.append((task_id, d))
        w.rec("save_exit", d, ok=True)

    def load(self, task_id: str) -> TaskiqResult:  # type: ignore[type-arg]
        mode, blob, _ = self.world.store[task_id]
        if mode == "json":
            return model_validate(TaskiqResult, JSONSerializer().loadb(blob))
        if mode == "pickle":
            return pickle.loads(blob)  # noqa: S301
        return blob

    async def is_result_ready(self, task_id: str) -> bool:
        return task_id in self.world.store

    async def get_result(self, task_id: str, with_logs: bool = False) -> TaskiqResult:  # type: ignore[type-arg]
        return self.load(task_id)


def summarize_value(v: Any) -> Any:
    try:
        json.dumps(v)
        return v
    except Exception:
        return repr(v)


def summarize_result(result: Any) -> dict:
    err = getattr(result, "error", None)
    return {
        "is_err": getattr(result, "is_err", None),
        "value": summarize_value(getattr(result, "return_value", None)),
        "err": None if err is None else type(err).__name__,
        "err_args": None if err is None else [repr(a) for a in getattr(err, "args", ())],
        "labels": enc_labels(getattr(result, "labels", {}) or {}),
    }


# ------------------------------------------------------------------------- executor
class SimExecutor(Executor):
    """The 'thread pool': runs the sync function inline at a scripted instant."""

    def __init__(self, world: "World") -> None:
        self.world = world

    def submit(self, fn: Any, /, *args: Any, **kwargs: Any) -> Future:  # type: ignore[override]
        w = self.world
        if getattr(self, "closed", False):
            raise RuntimeError("cannot schedule new futures after shutdown")
        f: Future = Future()
        d = DELIVERY.get()
        ctx = contextvars.copy_context()
        start_us = w.sync_start_delay(d)

        def start() -> None:
            if not f.set_running_or_notify_cancel():
                w.rec("sync_cancelled_before_start", d)
                return
            try:
                res = fn(*args, **kwargs)
            except BaseException as exc:  # noqa: BLE001
                res = _SyncOutcome(0, exc=exc)
            if not isinstance(res, _SyncOutcome):
                res = _SyncOutcome(0, value=res)

            def finish() -> None:
                if res.exc is not None:
                    w.rec("fn_exit", d, how="exc:" + type(res.exc).__name__)
                    f.set_exception(res.exc)
                else:
                    w.rec("fn_exit", d, how="ret")
                    f.set_result(res.value)

            w.loop.call_later_us(res.dur_us, finish, context=ctx)

        w.loop.call_later_us(start_us, start, context=ctx)
        return f

    def shutdown(self, wait: bool = True, *, cancel_futures: bool = False) -> None:
        self.closed = True          # like a real pool: nothing can be submitted afterwards


class _SyncOutcome:
    def __init__(self, dur_us: int, value: Any = None, exc: Optional[BaseException] = None) -> None:
        self.dur_us = dur_us
        self.value = value
        self.exc = exc


# ------------------------------------------------------------------------- receiver
class RecReceiver(Receiver):
    """Observation only: enter/exit records around the real callback()."""

    world: "World"

    async def listen(self, finish_event: Any) -> None:  # type: ignore[override]
        # observation only: number this listen() call, so that deliveries handed over as shared (interned) objects can be told
        # apart between the receiver sessions that run_receiver_task starts one after the other
        w = self.world
        w.extra["sessions"] = w.extra.get("sessions", 0) + 1
        SESSION.set(w.extra["sessions"])
        await super().listen(finish_event)

    async def callback(self, message: Any, raise_err: bool = False) -> None:  # type: ignore[override]
        w = self.world
        dl = w.by_obj.get(id(message))
        skey = (getattr(self.broker, "worker", None), getattr(self.broker, "gen", 0), SESSION.get(), id(message))
        if dl is None and w.shared_obj.get(skey):
            dl = w.shared_obj[skey].pop(0)
        d = dl.id if dl is not None else None
        DELIVERY.set(d)
        w.rec("cb_enter", d)
        how = "ok"
        try:
            return await super().callback(message, raise_err)
        except BaseException as exc:
            how = type(exc).__name__
            raise
        finally:
            w.rec("cb_exit", d, how=how)


# ---------------------------------------------------------------------- middlewares
def make_middleware(world: "World", idx: int, spec: dict, parent: Any = None) -> TaskiqMiddleware:
    hooks = spec.get("hooks", {})
    ns: Dict[str, Any] = {}
    base: Any = TaskiqMiddleware
    if parent is not None:
        # the class derives from another middleware's class; hooks of the parent it does not define itself are set back to the
        # framework's defaults, so that the set of overridden hooks is exactly the scripted one
        base = type(parent)
        for h in HOOK_NAMES:
            if h not in hooks:
                ns[h] = getattr(TaskiqMiddleware, h)

    def note(hook: str, message: Any, d: Any, **kw: Any) -> None:
        world.rec(
            "hook", d, hook=hook, mw=idx, task_id=message.task_id,
            chain=message.labels.get("chain"), labels=enc_labels(message.labels),
            k=world.k_of(message.task_id, message.task_name), **kw,
        )

    def maybe_raise(hook: str, message: Any) -> None:
        k = world.k_of(message.task_id, message.task_name)
        m = world.msgs.get(k)
        if m is None:
            return
        for hr in m.get("hook_raise", ()):  # [hook, mw, kind]
            if hr[0] == hook and hr[1] == idx:
                if len(hr) > 2 and hr[2] == "cancel":
                    world.fired("hook_cancelled")
                    raise asyncio.CancelledError()     # e.g. a transport dropped the future the hook was awaiting
                world.fired("hook_raise")
                world.rec("hook_failed", DELIVERY.get(), hook=hook, mw=idx)
                raise SimFault(f"hook {hook} of mw{idx} failed")

    def replaced(message: Any) -> Any:
        m2 = message.model_copy(deep=True)
        m2.labels["chain"] = str(message.labels.get("chain", "")) + str(idx)
        if m2.labels_types is not None:
            m2.labels_types["chain"] = 3  # LabelType.STR
        return m2

    def build(hook: str, hs: dict) -> Any:
        us = hs.get("us", 0)
        is_async = hs.get("async", False)
        replace = hs.get("replace", False)
        returns_msg = hook in ("pre_send", "pre_execute")
        if is_async:
            async def ahook(self: Any, message: Any, *rest: Any) -> Any:
                d = DELIVERY.get()
                note(hook, message, d, phase="enter", args=_hook_args(hook, rest))
                if us:
                    await asyncio.sleep(us / 1e6)
                maybe_raise(hook, message)
                if returns_msg:
                    return replaced(message) if replace else message
                return None
            ahook.__name__ = hook
            ret = hs.get("ret")
            if ret in ("future", "lazy"):
                # a plain (sync) method that returns an awaitable which is not a coroutine object: a Task, or a lazy awaitable
                def fhook(self: Any, message: Any, *rest: Any) -> Any:
                    coro = ahook(self, message, *rest)
                    return asyncio.ensure_future(coro) if ret == "future" else _Lazy(coro)
                fhook.__name__ = hook
                return fhook
            return ahook

        def shook(self: Any, message: Any, *rest: Any) -> Any:
            d = DELIVERY.get()
            note(hook, message, d, phase="enter", args=_hook_args(hook, rest))
            maybe_raise(hook, message)
            if returns_msg:
                return replaced(message) if replace else message
            return None
        shook.__name__ = hook
        return shook

    for hook, hs in hooks.items():
        ns[hook] = build(hook, hs)
    cls = type(f"RecMW{idx}", (base,), ns)
    return cls()


HOOK_NAMES = ("pre_send", "post_send", "pre_execute", "on_error", "post_execute", "post_save")


class _Lazy:
    """An awaitable that is neither a coroutine object nor a Future; nothing happens until it is awaited."""

    def __init__(self, coro: Any) -> None:
        self._coro = coro

    def __await__(self) -> Any:
        return self._coro.__await__()


def _hook_args(hook: str, rest: tuple) -> Any:
    out: Dict[str, Any] = {}
    for a in rest:
        if isinstance(a, TaskiqResult):
            out["result"] = summarize_result(a)
        elif isinstance(a, BaseException):
            out["exc"] = type(a).__name__
    return out


# ---------------------------------------------------------------------------- world
class World:
    def __init__(self, script: dict) -> None:
        self.script = script
        self.config = script["config"]
        self.seed = script.get("run_seed", 0)
        cpu_cfg = script.get("cpu", {"on": True})
        loop_ref: list = []
        cpu = None
        if cpu_cfg.get("on", True):
            cpu = make_cpu(stream(self.seed, "cpu"), cpu_cfg.get("p_busy", 0.25), cpu_cfg.get("p_stall", 0.004), loop_ref)
        self.loop = SimLoop(cpu=cpu, max_steps=script.get("max_steps", 60_000 + 6_000 * len(script.get("messages", []))))
        loop_ref.append(self.loop)
        self.recorder = Recorder(self)
        self.rec = self.recorder.rec
        self.server = Server(self)
        self.server_ctx = contextvars.copy_context()
        self.server_ctx.run(NODE.set, "server")
        self.msgs: Dict[Any, dict] = {m["k"]: m for m in script.get("messages", [])}
        self.tasks = script.get("tasks", [{"name": "t0"}])
        self.kick_count: Dict[Any, int] = {}
        self.sent_raw: Dict[Any, List[bytes]] = {}
        self.attempts: Dict[Any, int] = {}
        self.attempt_of: Dict[int, int] = {}
        self.by_obj: Dict[int, Delivery] = {}
        self.shared_obj: Dict[Any, List[Delivery]] = {}
        self.taken: Dict[Any, List[Delivery]] = {}
        self.store: Dict[str, Any] = {}
        self.store_log: List[Any] = []
        self.fault_counts: Dict[str, int] = {}
        self.workers: Dict[int, dict] = {}
        self.pending_sends = 0
        self.changed: Optional[asyncio.Event] = None
        self.never: List[Any] = []
        self.dropped: set = set()          # handed over by a subscription that failed before their callback started
        self._own_tasks: List[Any] = []
        self.extra: Dict[str, Any] = {}
        self.ops_pending = 0
        self.probe_msgs: Dict[Any, dict] = {}
        self.ended: set = set()
        self.entered: set = set()
        self.harness_ctx: Any = None
        self.last_progress_us = 0
        self.last_scripted_us = max([m.get("send_at_us", 0) for m in script.get("messages", [])] +
                                    [op.get("at_us", 0) for op in script.get("ops", [])] + [0])

    # ---- bookkeeping
    def fired(self, kind: str, n: int = 1) -> None:
        self.fault_counts[kind] = self.fault_counts.get(kind, 0) + n

    def on_event(self, kind: str, d: Any = None) -> None:
        if kind == "cb_exit":
            self.ended.add(d)
        elif kind == "cb_enter":
            self.entered.add(d)
        if kind in _PROGRESS_KINDS:
            self.last_progress_us = self.loop.now_us
            if self.changed is not None:
                self.changed.set()

    def k_of(self, task_id: str, task_name: str = "") -> Any:
        if task_id.startswith("m"):
            s = task_id[1:]
            if self.config.get("rekey"):
                s = s.rstrip("r")          # ids rewritten by the _Rekey middleware carry a trailing "r"
            try:
                return int(s)
            except ValueError:
                return s
        return task_id

    def spec_of(self, k: Any) -> dict:
        m = self.msgs.get(k)
        if m is None:
            m = self.probe_msgs.get(k, {})
        return m

    def net_spec(self, k: Any, n: int) -> dict:
        m = self.spec_of(k)
        nets = m.get("net") or [{}]
        return nets[min(n, len(nets) - 1)]

    def save_spec(self, d: Any) -> dict:
        dl = self.server.deliveries[d] if d is not None else None
        if dl is None:
            return {}
        m = self.spec_of(dl.k)
        saves = m.get("save") or [{}]
        a = self.attempt_of.get(d, 0)
        return saves[min(a, len(saves) - 1)]

    def ackable_for(self, d: Delivery) -> bool:
        mode = self.config.get("ackable", True)
        if mode == "mixed":
            return bool(self.spec_of(d.k).get("ackable", True))
        return bool(mode)

    def keep(self, task: Any) -> Any:
        """The harness holds a strong reference to every task it starts itself (asyncio only keeps weak ones)."""
        self._own_tasks.append(task)
        return task

    def make_ack(self, d: Delivery) -> Any:
        w = self
        spec = self.spec_of(d.k).get("ack", {})
        delay = spec.get("delay_us", 0)
        if self.config.get("ack_async", False) or spec.get("async", False):
            async def aack() -> None:
                w.rec("ack_call", d.id)
                if spec.get("cancel"):
                    w.fired("ack_cancelled")
                    raise asyncio.CancelledError()     # the broker connection dropped its pending futures
                if spec.get("fail"):
                    w.fired("ack_fail")
                    raise SimFault("acknowledgement failed")
                if delay:
                    w.fired("ack_delay")
                    await asyncio.sleep(delay / 1e6)
                d.acked = True
                w.rec("ack_done", d.id)
            ret = spec.get("ret")
            if ret in ("future", "lazy"):
                def fack() -> Any:
                    return asyncio.ensure_future(aack()) if ret == "future" else _Lazy(aack())
                return fack
            return aack

        def ack() -> None:
            w.rec("ack_call", d.id)
            if spec.get("fail"):
                w.fired("ack_fail")
                raise SimFault("acknowledgement failed")
            d.acked = True
            w.rec("ack_done", d.id)
        return ack

    def behaviour(self, d: Any) -> dict:
        dl = self.server.deliveries[d]
        m = self.spec_of(dl.k)
        atts = m.get("attempts") or [{}]
        a = self.attempt_of.get(d)
        if a is None:
            a = self.attempts.get(dl.k, 0)
            self.attempts[dl.k] = a + 1
            self.attempt_of[d] = a
        return atts[min(a, len(atts) - 1)]

    def sync_start_delay(self, d: Any) -> int:
        if d is None:
            return 0
        dl = self.server.deliveries[d]
        m = self.spec_of(dl.k)
        return int(m.get("pool_delay_us", 0))

    # ---- triggers (ops placed inside operations)
    def fire_triggers(self, kind: str, n: int, d: Any) -> None:
        rest = []
        for t in self.recorder.triggers:
            if t["kind"] == kind and t["nth"] == n:
                self.loop.call_later_us(t.get("plus_us", 0), t["fn"], context=self.harness_ctx)
            else:
                rest.append(t)
        self.recorder.triggers = rest


_PROGRESS_KINDS = frozenset(
    ["cb_exit", "kick_ok", "kick_fail", "enqueue", "take", "crash", "listen_return", "listen_raise", "send_done", "op"],
)


# ------------------------------------------------------------------- task factories
def _sleep_us(us: int) -> Any:
    return asyncio.sleep(us / 1e6)


_real_sleep = asyncio.sleep


def _weak_sleep(world: "World", us: int) -> Any:
    """Wait for a reply that only the waiter itself references strongly: the future is resolved by a timer through a weak
    reference (a connection object keeping its pending replies in a WeakValueDictionary). Nothing but the awaiting task keeps the
    future alive, so the task must be strongly referenced by whoever started it - otherwise a garbage collection destroys it."""
    import weakref
    fut = world.loop.create_future()
    ref = weakref.ref(fut)

    def reply() -> None:
        f = ref()
        if f is not None and not f.done():
            f.set_result(None)
    world.loop.call_later_us(us, reply)
    return fut


def _resolver_ctx_ordinal(world: World, d: Any) -> Optional[int]:
    """Observation only: which taskiq_dependencies resolve context is executing this dependency (ordinal per delivery).
    Used to tell apart the known library behaviour (sub-contexts are closed before their parent's own dependencies) from
    a wrong order inside one context."""
    try:
        from taskiq_dependencies.ctx import BaseResolveContext
    except Exception:  # pragma: no cover
        return None
    f = sys._getframe(2)
    while f is not None:
        slf = f.f_locals.get("self")
        if isinstance(slf, BaseResolveContext):
            table = world.extra.setdefault("rctx", {}).setdefault(d, {})
            key = id(slf)
            if key not in table:
                table[key] = len(table)
                world.extra.setdefault("rctx_keep", []).append(slf)   # keep alive: ids stay unique within the run
            return table[key]
        f = f.f_back
    return None


_DEP_CVS: Dict[str, Any] = {}


def _dep_cv(nid: str) -> Any:
    """One ContextVar per dependency name (request-scoped state a dependency sets while open and resets on teardown)."""
    cv = _DEP_CVS.get(nid)
    if cv is None:
        cv = _DEP_CVS[nid] = contextvars.ContextVar("dep_" + nid, default=None)
    return cv


def make_dep_funcs(world: World, tspec: dict) -> Dict[str, Any]:
    nodes = {n["id"]: n for n in tspec.get("deps", [])}
    funcs: Dict[str, Any] = {}

    def build(node: dict) -> Any:
        nid = node["id"]
        style = node["style"]
        params = []
        annotations: Dict[str, Any] = {}
        for sub, cache in node.get("deps", []):
            if sub not in funcs:
                build(nodes[sub])
            params.append(
                inspect.Parameter(sub, inspect.Parameter.KEYWORD_ONLY, default=TaskiqDepends(funcs[sub], use_cache=cache)),
            )
        if node.get("ctx"):
            params.append(
                inspect.Parameter("ctx", inspect.Parameter.KEYWORD_ONLY, default=TaskiqDepends(), annotation=Context),
            )
            annotations["ctx"] = Context

        def opened(kw: dict) -> dict:
            d = DELIVERY.get()
            rctx = _resolver_ctx_ordinal(world, d)
            ctx = kw.get("ctx")
            seen = None
            if ctx is not None:
                seen = {"tid": ctx.message.task_id, "args": summarize_value(list(ctx.message.args)),
                        "labels": enc_labels({k: v for k, v in ctx.message.labels.items()})}
            inst = world.extra["dep_inst"] = world.extra.get("dep_inst", 0) + 1
            world.rec("dep_open", d, dep=nid, seen=seen, rctx=rctx, inst=inst)
            return {"dep": nid, "seen": seen, "subs": {s: kw.get(s) for s, _ in node.get("deps", [])}, "inst": inst}

        def should_fail() -> bool:
            d = DELIVERY.get()
            if d is None:
                return False
            m = world.spec_of(world.server.deliveries[d].k)
            return m.get("dep_fail") == nid

        def times() -> Any:
            d = DELIVERY.get()
            m = world.spec_of(world.server.deliveries[d].k) if d is not None else {}
            return (m.get("dep_us") or {}).get(nid) or node.get("us") or [0, 0]

        def closed(exc: Optional[BaseException], inst: Any = None) -> None:
            world.rec("dep_close", DELIVERY.get(), dep=nid, exc=None if exc is None else type(exc).__name__, inst=inst)

        if style == "plain":
            def f(**kw: Any) -> Any:
                if should_fail():
                    world.rec("dep_fail", DELIVERY.get(), dep=nid)
                    raise SimError("dep " + nid)
                return opened(kw)
        elif style == "coro":
            async def f(**kw: Any) -> Any:  # type: ignore[misc]
                pre = times()[0]
                if pre:
                    await _sleep_us(pre)
                if should_fail():
                    world.rec("dep_fail", DELIVERY.get(), dep=nid)
                    raise SimError("dep " + nid)
                return opened(kw)
        elif style in ("gen", "cm"):
            def g(**kw: Any) -> Any:
                if should_fail():
                    world.rec("dep_fail", DELIVERY.get(), dep=nid)
                    raise SimError("dep " + nid)
                val = opened(kw)
                tok = _dep_cv(nid).set(val.get("inst")) if node.get("ctxbound") else None
                seen: Optional[BaseException] = None
                try:
                    yield val
                except BaseException as exc:  # noqa: BLE001
                    seen = exc
                    raise
                finally:
                    if tok is not None and not isinstance(seen, GeneratorExit):
                        _dep_cv(nid).reset(tok)        # only legal in the Context (task) in which the dependency was opened
                    closed(seen, val.get("inst"))
            f = contextmanager(g) if style == "cm" else g  # type: ignore[assignment]
        elif style in ("agen", "acm"):
            async def ag(**kw: Any) -> Any:
                pre, post = times()
                if pre:
                    await _sleep_us(pre)
                if should_fail():
                    world.rec("dep_fail", DELIVERY.get(), dep=nid)
                    raise SimError("dep " + nid)
                val = opened(kw)
                tok = _dep_cv(nid).set(val.get("inst")) if node.get("ctxbound") else None
                seen: Optional[BaseException] = None
                try:
                    yield val
                except BaseException as exc:  # noqa: BLE001
                    seen = exc
                    raise
                finally:
                    if post and not isinstance(seen, GeneratorExit):
                        await _sleep_us(post)
                    if tok is not None and not isinstance(seen, GeneratorExit):
                        _dep_cv(nid).reset(tok)
                    closed(seen, val.get("inst"))
            f = asynccontextmanager(ag) if style == "acm" else ag  # type: ignore[assignment]
        else:
            raise ValueError(style)
        target = f
        inner = getattr(f, "__wrapped__", f)
        inner.__signature__ = inspect.Signature(params)  # type: ignore[attr-defined]
        inner.__annotations__ = dict(annotations)
        inner.__name__ = inner.__qualname__ = f"dep_{nid}"
        inner.__module__ = TASKS_MODULE
        if target is not inner:
            target.__name__ = target.__qualname__ = f"dep_{nid}"
            target.__module__ = TASKS_MODULE
            target.__annotations__ = dict(annotations)
        funcs[nid] = target
        return target

    for n in tspec.get("deps", []):
        if n["id"] not in funcs:
            build(n)
    return funcs


def make_task_func(world: World, tspec: dict) -> Any:
    """Build the task function for one endpoint from its template."""
    if tspec.get("source"):
        return make_source_task(world, tspec)
    funcs = make_dep_funcs(world, tspec)
    params = [inspect.Parameter("k", inspect.Parameter.POSITIONAL_OR_KEYWORD, annotation=int)]
    params.append(inspect.Parameter("args", inspect.Parameter.VAR_POSITIONAL))
    annotations: Dict[str, Any] = {"k": int}
    for sub, cache in tspec.get("root", []):
        params.append(inspect.Parameter(sub, inspect.Parameter.KEYWORD_ONLY, default=TaskiqDepends(funcs[sub], use_cache=cache)))
    if tspec.get("ctx"):
        params.append(inspect.Parameter("ctx", inspect.Parameter.KEYWORD_ONLY, default=TaskiqDepends(), annotation=Context))
        annotations["ctx"] = Context
    if tspec.get("state_dep"):
        # a dependency served straight from the broker-wide dependency context (the broker's TaskiqState)
        from taskiq.state import TaskiqState
        params.append(inspect.Parameter("st", inspect.Parameter.KEYWORD_ONLY, default=TaskiqDepends(), annotation=TaskiqState))
        annotations["st"] = TaskiqState
    if tspec.get("uparam"):
        # a parameter whose annotation keeps bool / int / float / str apart (values that compare and hash equal across messages)
        from typing import Union
        ann = Union[bool, int, float, str, None]
        params.append(inspect.Parameter("u", inspect.Parameter.KEYWORD_ONLY, default=None, annotation=ann))
        annotations["u"] = ann
    params.append(inspect.Parameter("kwargs", inspect.Parameter.VAR_KEYWORD))
    roots = [s for s, _ in tspec.get("root", [])]

    def enter(args: tuple, kw: dict) -> Any:
        d = DELIVERY.get()
        beh = world.behaviour(d) if d is not None else {}
        ctx = kw.get("ctx")
        seen = None
        if ctx is not None:
            seen = {"tid": ctx.message.task_id, "args": summarize_value(list(ctx.message.args)),
                    "labels": enc_labels(dict(ctx.message.labels))}
        world.rec("fn_enter", d, attempt=world.attempt_of.get(d), seen=seen,
                  args=summarize_value(list(args)),
                  kwargs=summarize_value({k: v for k, v in kw.items() if k not in ("ctx", "st") and k not in roots}),
                  deps={s: kw.get(s) for s in roots})
        return d, beh

    def retval(d: Any, out: Any = None) -> Any:
        dl = world.server.deliveries[d]
        v = f"ret-{dl.k}-{world.attempt_of.get(d)}-d{d}"
        if out is not None and len(out) > 1 and out[1] == "excval":
            return ValueError(v)          # a function may RETURN an exception object: that is a value, not a failure
        return v

    if tspec.get("sync"):
        def body(*args: Any, **kw: Any) -> Any:
            d, beh = enter(args, kw)
            dur = sum(beh.get("steps", []))
            out = beh.get("out", ["ret"])
            if out[0] == "exc":
                return _SyncOutcome(dur, exc=EXC[out[1]](f"boom-{d}"))
            if out[0] == "nores":
                return _SyncOutcome(dur, exc=NoResultError())
            if out[0] == "reject":
                from taskiq.exceptions import TaskRejectedError
                return _SyncOutcome(dur, exc=TaskRejectedError())
            return _SyncOutcome(dur, value=retval(d, out))
    else:
        async def body(*args: Any, **kw: Any) -> Any:  # type: ignore[misc]
            d, beh = enter(args, kw)
            how = "cancelled"
            own_exc = False
            try:
                for us in beh.get("steps", []):
                    if us:
                        await (_weak_sleep(world, us) if beh.get("weak_wait") else _sleep_us(us))
                    else:
                        await asyncio.sleep(0)
                out = beh.get("out", ["ret"])
                if out[0] == "exc":
                    how = "exc:" + out[1]
                    own_exc = True
                    raise EXC[out[1]](f"boom-{d}")
                if out[0] == "nores":
                    how = "exc:NoResultError"
                    raise NoResultError
                if out[0] == "reject":
                    how = "exc:TaskRejectedError"
                    kw["ctx"].reject()
                if out[0] == "requeue":
                    how = "requeue"
                    world.fired("requeue")
                    await kw["ctx"].requeue()
                if out[0] == "never":
                    world.never.append(d)
                    world.rec("never", d)
                    await world.loop.create_future()
                how = "ret"
                return retval(d, out)
            except asyncio.CancelledError:
                if own_exc:
                    raise          # the body itself raised CancelledError (it awaited something that had been cancelled): an outcome, not a cancellation
                how = "cancelled"
                world.rec("fn_cancelled", d)          # the instant the cancellation reached the function body
                cu = beh.get("cleanup_us")
                if cu:
                    # the function does not stop instantly when cancelled (rollback / flush in its except/finally block)
                    world.fired("slow_cancel_cleanup")
                    await _sleep_us(cu)
                raise
            finally:
                world.rec("fn_exit", d, how=how)

    body.__signature__ = inspect.Signature(params)  # type: ignore[attr-defined]
    body.__annotations__ = annotations
    body._dep_funcs = funcs  # type: ignore[attr-defined]
    body.__name__ = body.__qualname__ = "task_" + tspec["name"]
    body.__module__ = TASKS_MODULE
    return body


SOURCE_NS: Dict[str, Any] = {}


def make_source_task(world: World, tspec: dict) -> Any:
    """Task function compiled from source text (used by C08: real signatures)."""
    ns: Dict[str, Any] = {"__name__": TASKS_MODULE, "world": world, "DELIVERY": DELIVERY}
    ns.update(SOURCE_NS)
    exec(compile(tspec["source"], f"<task {tspec['name']}>", "exec"), ns)  # noqa: S102
    fn = ns[tspec["func"]]
    fn.__module__ = TASKS_MODULE
    return fn


# ------------------------------------------------------------------------ endpoints
def make_endpoint(world: World, node: str, worker: Optional[int] = None, gen: int = 0, defer_late: bool = False) -> SimBroker:
    cfg = world.config
    br = SimBroker(world, node, worker, gen)
    br.with_id_generator(lambda: _gen_id(world))
    if cfg.get("serializer") == "pickle":
        br.with_serializer(PickleSerializer())
    if cfg.get("formatter") == "json":
        br.with_formatter(JSONFormatter())
    br.with_result_backend(SimResultBackend(world))
    mws: List[TaskiqMiddleware] = []
    made: Dict[int, Any] = {}
    for i, ms in enumerate(cfg.get("middlewares", [])):
        if ms.get("late") and not world.extra.get("late_mw_added"):
            continue        # added to the running brokers by the "add_late_mw" op
        if ms.get("retry") is not None:
            r = ms["retry"]
            if cfg.get("retry_sub"):
                world.fired("retry_middleware_subclassed")
            mws.append((_ProjectRetry if cfg.get("retry_sub") else SimpleRetryMiddleware)(
                default_retry_count=r.get("count", 3),
                default_retry_label=r.get("label", False),
                no_result_on_retry=r.get("no_result_on_retry", True),
            ))
        else:
            parent = None
            inh = cfg.get("mw_inherit")
            if inh and inh[0] == i and inh[1] in made:
                parent = made[inh[1]]
            made[i] = make_middleware(world, i, ms, parent)
            mws.append(made[i])
    if cfg.get("mw_bare") is not None and mws:
        # an instance of the base class itself (overrides nothing): none of its hooks may be called, and it must not affect the others
        mws.insert(min(cfg["mw_bare"], len(mws)), TaskiqMiddleware())
    if worker is None and cfg.get("client_label_adder"):
        mws.append(_LabelAdder(world))
    if worker is None and cfg.get("client_stamper"):
        mws.append(_Stamper(world, cfg["client_stamper"].get("us", 0)))
    if worker is not None and cfg.get("rekey"):
        mws.append(_Rekey(world))
    pb = cfg.get("mw_prebound")
    if pb is not None and mws:
        # a middleware that was handed its broker before it is registered (set_broker is public; a middleware may take the broker in
        # its constructor): it is registered like any other
        mws[pb % len(mws)].set_broker(br)
        world.fired("middleware_bound_before_registration")
    split = cfg.get("mw_split")
    if split and len(mws) >= 2:
        # the stack is built in two steps: with_middlewares / add_middlewares in either combination (both append)
        k = max(1, min(len(mws) - 1, split[0]))
        first, second = split[1].split("+")
        (br.with_middlewares if first == "with" else br.add_middlewares)(*mws[:k])
        (br.with_middlewares if second == "with" else br.add_middlewares)(*mws[k:])
        world.fired("middlewares_registered_in_two_steps")
    else:
        br.add_middlewares(*mws)
    register_tasks(world, br, worker, late=False, defer_late=defer_late)
    return br


class _Rekey(TaskiqMiddleware):
    """A worker-side pre_execute middleware that gives the message another task id (a delivery id mapped to a canonical job id):
    the execution, its Context and the stored result all belong to the id the executed message carries."""

    def __init__(self, world: "World") -> None:
        super().__init__()
        self.world = world

    def pre_execute(self, message: Any) -> Any:
        if message.task_id.endswith("r"):
            return message
        self.world.fired("task_id_rewritten_by_middleware")
        return message.model_copy(update={"task_id": message.task_id + "r"})


class _Stamper(TaskiqMiddleware):
    """A client-side pre_send middleware that writes a per-message label (the message's own task id) into the outgoing message in
    place and may suspend afterwards (an idempotency key / trace id stamped by a middleware)."""

    def __init__(self, world: "World", us: int) -> None:
        super().__init__()
        self.world = world
        self.us = us

    async def pre_send(self, message: Any) -> Any:
        message.labels["stamp"] = message.task_id
        self.world.fired("message_stamped_in_place")
        if self.us:
            await asyncio.sleep(self.us / 1e6)
        else:
            await asyncio.sleep(0)
        return message


class _ProjectRetry(SimpleRetryMiddleware):
    """A deployment's own subclass of the stock retry middleware: it defines no hook itself, every hook is inherited."""


class _LabelAdder(TaskiqMiddleware):
    """A client-side pre_send middleware that attaches labels to the outgoing message (a default timeout, an origin tag).
    The kicker computed ``labels_types`` before pre_send ran, so these labels travel without a type entry."""

    def __init__(self, world: "World") -> None:
        super().__init__()
        self.world = world

    def pre_send(self, message: Any) -> Any:
        w = self.world
        m = w.msgs.get(w.k_of(message.task_id, message.task_name))
        if m is None:
            return message
        for name, val in (m.get("mw_labels") or {}).items():
            message.labels[name] = val
            w.fired("untyped_label_added_by_middleware")
        pop = m.get("mw_pop_label")
        if pop is not None and pop in message.labels:
            # a label the middleware consumes (a routing key): removed after the kicker recorded its type
            message.labels.pop(pop)
            w.fired("typed_label_removed_by_middleware")
        if m.get("timeout_untyped") and m.get("timeout") is not None:
            message.labels["timeout"] = repr(float(m["timeout"]))
            w.fired("untyped_label_added_by_middleware")
        return message


def register_tasks(world: World, br: Any, worker: Optional[int], late: bool, defer_late: bool = False) -> None:
    """Register the task templates on an endpoint. Templates flagged ``register_late`` are registered on a worker endpoint only
    after its Receiver has been constructed (``late=True`` call), so the receiver prepares them lazily on their first execution."""
    for ts in world.tasks:
        if ts.get("client_only") and worker is not None:
            continue
        is_late = bool(ts.get("register_late")) and worker is not None and defer_late
        if is_late != late:
            continue
        labels = {k: dec_label(v) for k, v in ts.get("labels", {}).items()}
        fn = make_task_func(world, ts)
        br.register_task(fn, task_name=ts["name"], **labels)
        if late:
            world.fired("task_registered_after_receiver_creation")
        if worker is not None:
            funcs = getattr(fn, "_dep_funcs", {})
            for orig, repl in ts.get("overrides", []):
                br.dependency_overrides[funcs[orig]] = funcs[repl]


def _gen_id(world: World) -> str:
    k = SENDING.get()
    if k is None:
        world.extra["anon_ids"] = world.extra.get("anon_ids", 0) + 1
        return f"anon{world.extra['anon_ids']}"
    return f"m{k}"


# --------------------------------------------------------------------------- driver
class Run:
    def __init__(self) -> None:
        self.events: List[list] = []
        self.end: str = ""
        self.fault_counts: Dict[str, int] = {}
        self.steps = 0
        self.sim_us = 0
        self.stalls = 0
        self.loop_errors: List[dict] = []
        self.store: Dict[str, Any] = {}
        self.extra: Dict[str, Any] = {}
        self.script: dict = {}

    def digest(self) -> str:
        h = hashlib.sha256()
        h.update(json.dumps(self.events, sort_keys=True, default=repr).encode())
        return h.hexdigest()


_installed = False


def install_seams() -> None:
    """Rebind module-level clock names in taskiq to the simulated clock (idempotent)."""
    global _installed
    if _installed:
        return
    _installed = True
    mod = types.ModuleType(TASKS_MODULE)
    sys.modules[TASKS_MODULE] = mod
    logging.disable(logging.CRITICAL)
    # coroutines of killed / abandoned tasks are closed by the garbage collector after
    # the run; taskiq's `except BaseException` keeps running them a little further with
    # no loop. The recorder is closed by then; keep stderr clean.
    sys.unraisablehook = lambda *a, **k: None

    def sim_time() -> float:
        try:
            return asyncio.get_running_loop().time()
        except RuntimeError:
            return 0.0

    receiver_mod.time = sim_time  # type: ignore[attr-defined]
    task_mod.time = sim_time  # type: ignore[attr-defined]
    import warnings
    warnings.simplefilter("ignore")


def reset_globals() -> None:
    AsyncBroker.global_task_registry.clear()
    import taskiq.serialization as ser
    if hasattr(ser, "SEEN_EXCEPTIONS_CACHE"):
        try:
            ser.SEEN_EXCEPTIONS_CACHE.clear()
        except Exception:
            pass
    mod = sys.modules.get(TASKS_MODULE)
    if mod is not None:
        for name in list(vars(mod)):
            if not name.startswith("__"):
                delattr(mod, name)


def simulate(script: dict, client_fn: Any = None) -> Run:
    """Run one scripted scenario on a fresh SimLoop and return its history."""
    install_seams()
    reset_globals()
    world = World(script)
    loop = world.loop
    run = Run()
    run.script = script
    gc_was = gc.isenabled()
    gc.disable()
    asyncio.set_event_loop(loop)
    world.harness_ctx = contextvars.copy_context()
    import warnings
    wcm = warnings.catch_warnings()
    wcm.__enter__()
    if script["config"].get("warn_error"):
        # a strict deployment: warnings of the categories libraries use for "this is odd" are errors
        warnings.simplefilter("error", RuntimeWarning)
        warnings.simplefilter("error", UserWarning)
        world.fired("warnings_are_errors")
    try:
        main = loop.create_task(_main(world, client_fn), context=world.harness_ctx)
        try:
            if script["config"].get("entry") == "cli":
                _run_cli_worker(world)
            loop.run_until_complete(main)
            run.end = "done"
        except Quiescent:
            run.end = "quiescent"
        except StepCap:
            run.end = "stepcap"
        except TimeCap:
            run.end = "timecap"
        except BaseException as exc:  # noqa: BLE001
            # KeyboardInterrupt / SystemExit (or anything else) escaped a task and tore down the event
            # loop: in a real worker this kills the process. Reported by the runner as a violation.
            run.end = "escaped:" + type(exc).__name__
            world.rec("escaped", None, exc=type(exc).__name__)
    finally:
        world.recorder.closed = True
        run.events = world.recorder.events
        run.fault_counts = dict(world.fault_counts)
        if loop.stalls:
            run.fault_counts["cpu_stall"] = loop.stalls
        run.steps = loop.steps
        run.sim_us = loop.now_us
        run.loop_errors = loop.errors
        run.store = world.store
        run.extra = world.extra
        run.extra["world"] = world
        try:
            loop.shutdown_sim()
        finally:
            wcm.__exit__(None, None, None)
            asyncio.set_event_loop(None)
            if gc_was:
                gc.enable()
    return run


def _run_cli_worker(world: World) -> None:
    """Worker 0 is started the way `taskiq worker` starts a child process: the real taskiq.cli.worker.run.start_listen(args),
    with its imports, event-loop factory, thread pool and signal registration redirected to the simulator. Shutdown is
    requested by delivering a signal to the handler start_listen registered."""
    import signal as real_signal
    import taskiq.cli.worker.run as wr
    from taskiq.cli.worker.args import WorkerArgs
    cfg = world.config
    loop = world.loop
    node = "w0"
    ctx = contextvars.copy_context()
    ctx.run(NODE.set, node)
    info: Dict[str, Any] = {"gen": 0, "node": node, "alive": True, "stopped": False, "returned": False, "ctx": ctx, "cli": True}
    world.workers[0] = info
    handlers: Dict[int, Any] = {}

    class CliRecReceiver(RecReceiver):
        async def listen(self, finish_event: Any) -> None:  # type: ignore[override]
            info["receiver"] = self
            world.rec("listen_start", None, w=0, gen=0)
            try:
                await super().listen(finish_event)
                info["returned"] = True
                world.rec("listen_return", None, w=0, gen=0)
            except BaseException as exc:  # noqa: BLE001
                info["returned"] = True
                world.rec("listen_raise", None, w=0, gen=0, exc=type(exc).__name__)
                raise

    def imp(path: str) -> Any:
        if path == "sim:broker":
            br = make_endpoint(world, node, worker=0, gen=0)
            info["broker"] = br
            return br
        CliRecReceiver.world = world
        return CliRecReceiver

    def deliver(name: str) -> None:
        signum = int(getattr(real_signal, name))
        world.rec("signal", None, sig=name, handled=signum in handlers)
        if signum in handlers:
            handlers[signum](signum, None)

    info["deliver_signal"] = deliver
    fake_signal = types.SimpleNamespace(SIGINT=real_signal.SIGINT, SIGTERM=real_signal.SIGTERM, SIGHUP=real_signal.SIGHUP,
                                        signal=lambda signum, handler: handlers.__setitem__(int(signum), handler))
    saved = {n: getattr(wr, n) for n in ("import_object", "import_tasks", "signal", "ThreadPoolExecutor", "uvloop")}
    saved_new_loop = asyncio.new_event_loop
    wr.import_object = imp  # type: ignore[assignment]
    wr.import_tasks = lambda *a, **k: None  # type: ignore[assignment]
    wr.signal = fake_signal  # type: ignore[assignment]
    wr.ThreadPoolExecutor = lambda max_workers=None: SimExecutor(world)  # type: ignore[assignment,misc]
    wr.uvloop = None  # type: ignore[assignment]
    asyncio.new_event_loop = lambda: loop  # type: ignore[assignment]
    try:
        # the command line of `taskiq worker`, parsed by the real argument parser
        argv = ["sim:broker", "--receiver", "sim:receiver", "--no-configure-logging", "--workers", "1", "--shutdown-timeout", "5",
                "--max-async-tasks", str(cfg.get("A") or cfg.get("A_raw") or 0), "--max-prefetch", str(cfg.get("P", 0)),
                "--hardkill-count", str(cfg.get("hardkill_count", 3))]
        if not cfg.get("validate_params", True):
            argv.append("--no-parse")
        if not cfg.get("propagate", True):
            argv.append("--no-propagate-errors")
        if cfg.get("ack_type"):
            argv += ["--ack-type", cfg["ack_type"] if world.seed % 2 else cfg["ack_type"].upper()]
        if cfg.get("N") is not None:
            argv += ["--max-tasks-per-child", str(cfg["N"])]
        if cfg.get("W") is not None:
            argv += ["--wait-tasks-timeout", repr(float(cfg["W"]))]
        if cfg.get("pool_size") is not None:
            argv += ["--max-threadpool-threads", str(cfg["pool_size"])]
        args = WorkerArgs.from_cli(argv)
        world.rec("cli_args", None, argv=argv)
        ctx.run(wr.start_listen, args)
    finally:
        for n, v in saved.items():
            setattr(wr, n, v)
        asyncio.new_event_loop = saved_new_loop  # type: ignore[assignment]
        info["returned"] = True
        world.on_event("listen_return")


def start_worker(world: World, w: int) -> None:
    cfg = world.config
    prev = world.workers.get(w)
    gen = 0 if prev is None else prev["gen"] + 1
    node = f"w{w}" if gen == 0 else f"w{w}.{gen}"
    ctx = contextvars.copy_context()
    ctx.run(NODE.set, node)
    info: Dict[str, Any] = {"gen": gen, "node": node, "alive": True, "stopped": False, "returned": False, "ctx": ctx}
    world.workers[w] = info

    async def api_main() -> None:
        # the programmatic entry point taskiq.api.run_receiver_task: it re-creates the receiver and reconnects after a listen() failure;
        # its only stop request is cancellation
        import taskiq.api.receiver as api_mod
        br = make_endpoint(world, node, worker=w, gen=gen)
        info["broker"] = br
        RecReceiver.world = world
        saved = api_mod.ThreadPoolExecutor
        api_mod.ThreadPoolExecutor = lambda max_workers=None: SimExecutor(world)  # type: ignore[assignment,misc]
        world.rec("listen_start", None, w=w, gen=gen)
        try:
            await api_mod.run_receiver_task(
                br, receiver_cls=RecReceiver, validate_params=cfg.get("validate_params", True), max_async_tasks=cfg.get("A") or cfg.get("A_raw") or 0,
                max_prefetch=cfg.get("P", 0), propagate_exceptions=cfg.get("propagate", True), run_startup=False,
                ack_time=AcknowledgeType(cfg["ack_type"]) if cfg.get("ack_type") else None,
                sync_workers=cfg.get("pool_size"),
            )
        except BaseException as exc:  # noqa: BLE001
            world.rec("listen_raise" if not isinstance(exc, asyncio.CancelledError) else "listen_return", None, w=w, gen=gen, exc=type(exc).__name__)
        finally:
            api_mod.ThreadPoolExecutor = saved  # type: ignore[assignment]
            info["returned"] = True

    if cfg.get("entry") == "api":
        info["api"] = True
        info["task"] = world.loop.create_task(api_main(), context=ctx)
        return

    async def worker_main() -> None:
        br = make_endpoint(world, node, worker=w, gen=gen, defer_late=True)
        br.is_worker_process = True
        info["broker"] = br
        RecReceiver.world = world
        rcv = RecReceiver(
            broker=br,
            executor=SimExecutor(world),
            validate_params=cfg.get("validate_params", True),
            max_async_tasks=cfg.get("A") if cfg.get("A") is not None else cfg.get("A_raw"),
            max_prefetch=cfg.get("P", 0),
            propagate_exceptions=cfg.get("propagate", True),
            run_startup=False,
            ack_type=AcknowledgeType(cfg["ack_type"]) if cfg.get("ack_type") else None,
            max_tasks_to_execute=cfg.get("N"),
            wait_tasks_timeout=cfg.get("W"),
        )
        info["receiver"] = rcv
        register_tasks(world, br, w, late=True, defer_late=True)     # tasks that appear only after the Receiver exists
        info["finish"] = asyncio.Event()
        world.rec("listen_start", None, w=w, gen=gen)
        try:
            await rcv.listen(info["finish"])
            info["returned"] = True
            world.rec("listen_return", None, w=w, gen=gen)
        except BaseException as exc:  # noqa: BLE001
            info["returned"] = True
            world.rec("listen_raise", None, w=w, gen=gen, exc=type(exc).__name__)

    info["task"] = world.loop.create_task(worker_main(), context=ctx)


def do_stop(world: World, w: int) -> None:
    info = world.workers.get(w)
    if not info or not info["alive"] or info["stopped"] or ("finish" not in info and not info.get("cli") and not info.get("api")):
        return
    info["stopped"] = True
    world.fired("stop_event")
    world.rec("stop_set", None, w=w, gen=info["gen"])
    if info.get("api"):
        info["task"].cancel()
    elif info.get("cli"):
        # `taskiq worker` child process: shutdown is requested by a signal; the real handler sets the shutdown event
        info["deliver_signal"](world.config.get("stop_signal", "SIGINT"))
        # further signals (a terminal's Ctrl-C reaches the child directly and forwarded by the manager): up to hardkill_count + 1
        # signals in total are a graceful shutdown request
        for delay_us, name in world.config.get("extra_signals", []):
            def again(name: str = name) -> None:
                if not info.get("returned"):
                    world.fired("repeated_stop_signal")
                    info["deliver_signal"](name)
            world.loop.call_later_us(delay_us, again, context=world.harness_ctx)
    else:
        info["finish"].set()


def do_crash(world: World, w: int, redeliver_us: int = 1000) -> None:
    info = world.workers.get(w)
    if not info or not info["alive"]:
        return
    info["alive"] = False
    world.loop.kill(info["node"])
    world.fired("worker_crash")
    world.rec("crash", None, w=w, gen=info["gen"])
    srv = world.server
    for dl in world.taken.get((w, info["gen"]), []):
        if dl.ackable and not dl.acked:
            srv.transit(redeliver_us, dl.raw, dl.k, redelivery_of=dl.id)


def do_restart(world: World, w: int) -> None:
    info = world.workers.get(w)
    if info and info["alive"] and not info["returned"]:
        return
    world.fired("worker_restart")
    world.rec("restart", None, w=w)
    start_worker(world, w)


async def _send(world: World, client: SimBroker, m: dict) -> None:
    k = m["k"]
    SENDING.set(k)
    kind = m.get("kind", "valid")
    try:
        if kind == "malformed":
            world.fired("malformed")
            raw = base64.b64decode(m["raw_b64"])
            world.rec("inject_raw", None, k=k)
            world.server.transit((m.get("net") or [{}])[0].get("delay_us", 0), raw, k)
        else:
            tname = m.get("task_name") or world.tasks[m.get("task", 0)]["name"]
            if kind == "unknown":
                world.fired("unknown_task")
            task = client.find_task(tname)
            assert task is not None, tname
            if m.get("via_default_broker"):
                from taskiq.brokers.shared_broker import async_shared_broker
                async_shared_broker.default_broker(client)
            kicker = task.kicker()
            labels = {name: dec_label(v) for name, v in (m.get("labels") or {}).items()}
            if m.get("timeout_raw") is not None:
                labels["timeout"] = m["timeout_raw"]          # a timeout label that cannot be read as a number
            elif m.get("timeout") is not None and not (m.get("timeout_untyped") and world.config.get("client_label_adder")):
                labels["timeout"] = m["timeout"]
            if labels:
                kicker = kicker.with_labels(**labels)
            args = [k] + list(m.get("args", []))
            await kicker.kiq(*args, **(m.get("kwargs") or {}))
            world.rec("send_ok", None, k=k)
    except BaseException as exc:  # noqa: BLE001
        from taskiq.exceptions import SendTaskError
        world.rec("send_err", None, k=k, exc=type(exc).__name__, cause=type(exc.__cause__).__name__ if exc.__cause__ else None,
                  is_send_task_error=isinstance(exc, SendTaskError))
    finally:
        world.pending_sends -= 1
        world.rec("send_done", None, k=k)


def _longest_us(world: World) -> int:
    longest = 0
    for m in list(world.msgs.values()) + list(world.probe_msgs.values()):
        for a in m.get("attempts") or [{}]:
            longest = max(longest, sum(a.get("steps", [])))
        longest = max(longest, int(m.get("pool_delay_us", 0)))
        for dv in (m.get("dep_us") or {}).values():
            longest = max(longest, sum(dv))
    return longest


def _idle(world: World) -> bool:
    if world.pending_sends or world.server.in_transit or world.ops_pending:
        return False
    live = [(w, i) for w, i in world.workers.items() if i["alive"] and not i["returned"]]
    listening = [x for x in live if not x[1]["stopped"]]
    if world.server.queue and listening:
        return False
    ended = world.ended
    for (w, gen), dls in world.taken.items():
        info = world.workers.get(w)
        if not info or info["gen"] != gen or not info["alive"]:
            continue
        for dl in dls:
            if dl.id in world.dropped and dl.id not in world.entered:
                continue          # went down with the failed listen() call (if its callback did start after all, it counts)
            if dl.id not in ended and dl.id not in world.never:
                return False
    return True


async def _settle(world: World, slack_us: int) -> bool:
    """Wait until idle, or until nothing has progressed for slack_us. True iff idle."""
    assert world.changed is not None
    while True:
        if _idle(world):
            return True
        # scripted sends / ops that lie in the future are progress still to come
        horizon = max(world.last_progress_us, world.last_scripted_us if (world.pending_sends or world.ops_pending) else 0)
        remaining = horizon + slack_us - world.loop.now_us
        if remaining <= 0:
            return False
        world.changed.clear()
        try:
            await asyncio.wait_for(world.changed.wait(), remaining / 1e6)
        except asyncio.TimeoutError:
            pass


async def _main(world: World, client_fn: Any) -> None:
    script = world.script
    cfg = world.config
    loop = world.loop
    world.changed = asyncio.Event()
    world.rec("begin", None)
    cctx = contextvars.copy_context()
    cctx.run(NODE.set, "client")
    for ts in world.tasks:
        if ts.get("decoy_shared"):
            # a task with the same name, but another signature, is also declared on the shared broker (global registry): every
            # broker that has its own task of that name must keep using its own
            from taskiq.brokers.shared_broker import async_shared_broker

            async def decoy(k: str = "", p0: str = "", p1: str = "", p2: str = "", p3: str = "", q0: str = "", q1: str = "", q2: str = "", **kw: Any) -> str:
                world.rec("decoy_executed", None, name=ts["name"])
                return "decoy"
            decoy.__name__ = decoy.__qualname__ = "decoy_" + ts["name"]
            decoy.__module__ = TASKS_MODULE
            async_shared_broker.register_task(decoy, task_name=ts["name"])
            world.fired("same_name_shared_task")
    if cfg.get("transport") == "inmemory":
        client = make_inmemory(world)
        world.workers[0] = {"gen": 0, "node": "client", "alive": True, "stopped": True, "returned": True}
    else:
        client = make_endpoint(world, "client")
        if cfg.get("entry") != "cli":
            for w in range(cfg.get("workers", 1)):
                start_worker(world, w)
    world.extra["client"] = client
    # sends
    for m in script.get("messages", []):
        world.pending_sends += 1
        loop.call_at_us(
            m.get("send_at_us", 0),
            lambda m=m: world.keep(loop.create_task(_send(world, client, m), context=cctx.copy())),
            context=cctx,
        )
    if client_fn is not None:
        world.pending_sends += 1

        async def run_client() -> None:
            try:
                await client_fn(world, client)
            finally:
                world.pending_sends -= 1
                world.rec("send_done", None, k="client_fn")
        world.keep(loop.create_task(run_client(), context=cctx.copy()))
    # tasks registered late (after the receivers exist), on the shared broker: visible to every broker through the global registry
    for lt in script.get("late_tasks", []):
        def register(lt: dict = lt) -> None:
            from taskiq.brokers.shared_broker import async_shared_broker
            async_shared_broker.register_task(make_task_func(world, lt), task_name=lt["name"])
            world.fired("late_registration")
            world.rec("late_task_registered", None, name=lt["name"])
        loop.call_at_us(lt.get("at_us", 0), register, context=world.harness_ctx)
    # ops
    for op in script.get("ops", []):
        _arm_op(world, op)
    longest = _longest_us(world)
    slack = 3_000_000 + 2 * longest
    settled = await _settle(world, slack)
    world.rec("settled", None, idle=settled)
    probe = script.get("probe")
    if probe:
        await _run_probe(world, client, cctx, probe)
        settled = await _settle(world, 3_000_000 + 2 * _longest_us(world))
        world.rec("probe_settled", None, idle=settled)
    # final graceful stop of every live worker
    for w, info in sorted(world.workers.items()):
        if info["alive"] and not info["stopped"] and not info["returned"]:
            do_stop(world, w)
    wait_us = 2_000_000 + 2 * _longest_us(world) + int(1e6 * (cfg.get("W") or 0))
    world.last_progress_us = world.loop.now_us
    while True:
        live = [i for i in world.workers.values() if i["alive"] and not i["returned"]]
        if not live:
            break
        remaining = world.last_progress_us + wait_us - world.loop.now_us
        if remaining <= 0:
            break
        world.changed.clear()
        try:
            await asyncio.wait_for(world.changed.wait(), remaining / 1e6)
        except asyncio.TimeoutError:
            pass
    for w, info in sorted(world.workers.items()):
        if info["alive"] and not info["returned"]:
            world.rec("hang", None, w=w, gen=info["gen"])
    world.rec("end", None)


def _arm_op(world: World, op: dict) -> None:
    timed = "after" not in op
    if timed:
        world.ops_pending += 1

    def fire() -> None:
        if timed:
            world.ops_pending -= 1
        kind = op["op"]
        world.rec("op", None, op=kind, w=op.get("w", 0))
        if kind == "stop":
            do_stop(world, op.get("w", 0))
        elif kind == "crash":
            do_crash(world, op.get("w", 0), op.get("redeliver_us", 1000))
        elif kind == "restart":
            do_restart(world, op.get("w", 0))
        elif kind == "gc":
            # a cyclic garbage collection at this instant (automatic collection is off during a run so that it happens only here)
            import gc
            world.fired("gc_collect")
            gc.collect()
        elif kind == "add_late_mw":
            # broker.add_middlewares() on the running worker brokers: the retry middleware is installed after the workers have
            # already processed (and failed) messages
            world.extra["late_mw_added"] = True
            world.fired("middleware_added_late")
            for i in world.workers.values():
                br = i.get("broker")
                if br is None or not i.get("alive"):
                    continue
                for ms in world.config.get("middlewares", []):
                    if ms.get("late") and ms.get("retry") is not None:
                        r = ms["retry"]
                        br.add_middlewares((_ProjectRetry if world.config.get("retry_sub") else SimpleRetryMiddleware)(default_retry_count=r.get("count", 3), default_retry_label=r.get("label", False),
                                                                 no_result_on_retry=r.get("no_result_on_retry", True)))
        elif kind == "reregister":
            # the same task name is registered again (on every live endpoint) with a function of the other kind (sync <-> async)
            ti = op.get("task", 0)
            ts = dict(world.tasks[ti])
            ts["sync"] = not ts.get("sync", False)
            if ts["sync"]:
                ts["ctx"] = ts.get("ctx", False)
            world.tasks[ti] = ts
            world.fired("task_reregistered")
            eps = [world.extra.get("client")] + [i.get("broker") for i in world.workers.values() if i.get("alive")]
            for br in eps:
                if br is not None:
                    labels = {k: dec_label(v) for k, v in ts.get("labels", {}).items()}
                    br.register_task(make_task_func(world, ts), task_name=ts["name"], **labels)

    if "after" in op:
        kind, nth = op["after"]
        world.recorder.triggers.append({"kind": kind, "nth": nth, "plus_us": op.get("plus_us", 0), "fn": fire})
    else:
        world.loop.call_at_us(op.get("at_us", 0), fire, context=world.harness_ctx)


async def _run_probe(world: World, client: SimBroker, cctx: Any, probe: dict) -> None:
    """Saturation probe (C03): n long tasks sent at once after the scripted history."""
    # ops whose trigger never happened are dropped now
    world.recorder.triggers = []
    n = probe["n"]
    world.extra["probe_started"] = True       # faults have stopped: no transport failure is injected from here on
    world.last_progress_us = world.loop.now_us
    world.rec("probe_start", None, n=n)
    for i in range(n):
        k = f"p{i}"
        m = {"k": k, "kind": "valid", "task": probe.get("task", 0),
             "attempts": [{"steps": [probe.get("dur_us", 1_000_000)], "out": ["ret"]}]}
        world.probe_msgs[k] = m
        world.pending_sends += 1
        world.keep(world.loop.create_task(_send(world, client, m), context=cctx.copy()))

"""Scheduler world: the real run_scheduler_loop / run_scheduler_task / TaskiqScheduler /
LabelScheduleSource on the virtual-time loop, with a simulated wall clock.

Seams: ``taskiq.cli.scheduler.run.datetime`` (rebound to SimDateTime), the event loop,
ScheduleSource (scripted dynamic sources), AsyncBroker.kick (recording broker), ids.
"""
from __future__ import annotations

import asyncio
import contextvars
import gc
import hashlib
import json
import logging
import sys
import types
from datetime import datetime, timedelta, timezone
from typing import Any, Dict, List, Optional
from zoneinfo import ZoneInfo

import pytz

import taskiq.cli.scheduler.run as run_mod
from taskiq.abc.broker import AsyncBroker
from taskiq.abc.schedule_source import ScheduleSource
from taskiq.api.scheduler import run_scheduler_task
from taskiq.brokers.shared_broker import async_shared_broker
from taskiq.exceptions import ScheduledTaskCancelledError
from taskiq.message import BrokerMessage
from taskiq.schedule_sources.label_based import LabelScheduleSource
from taskiq.scheduler.scheduled_task import ScheduledTask
from taskiq.scheduler.scheduler import TaskiqScheduler

from .loop import NODE, Quiescent, SimLoop, StepCap, TimeCap, make_cpu
from .rng import stream
from .worker_world import SimFault, enc_labels, reset_globals

UTC = timezone.utc
EPOCH = datetime(1970, 1, 1, tzinfo=UTC)
_REAL_DATETIME = datetime

CLOCK: Dict[str, Any] = {"epoch_us": 0, "loop": None, "local_off_min": 0, "fixed_us": None}


TZ_OFFSETS = {"UTC": 0, "Etc/GMT-3": 180, "Etc/GMT+7": -420, "Asia/Kathmandu": 345, "Asia/Tokyo": 540, "America/Phoenix": -420}


def set_process_tz(name: str) -> None:
    """The host's local zone is part of the wall clock: naive datetimes are interpreted in it by datetime.astimezone()."""
    import os
    import time as _time
    os.environ["TZ"] = name
    _time.tzset()


def wall_us() -> int:
    if CLOCK["fixed_us"] is not None:
        return CLOCK["fixed_us"]
    lp = CLOCK["loop"]
    return CLOCK["epoch_us"] + (lp.now_us if lp is not None else 0)


def wall_utc() -> datetime:
    return EPOCH + timedelta(microseconds=wall_us())


class SimDateTime(datetime):
    """datetime whose now()/utcnow() read the simulated wall clock."""

    @classmethod
    def now(cls, tz: Any = None) -> datetime:  # type: ignore[override]
        utc = wall_utc()
        if tz is None:
            return (utc + timedelta(minutes=CLOCK["local_off_min"])).replace(tzinfo=None)
        return utc.astimezone(tz)

    @classmethod
    def utcnow(cls) -> datetime:  # type: ignore[override]
        return wall_utc().replace(tzinfo=None)


_installed = False
_orig_get_task_delay = run_mod.get_task_delay
DELAY_LOG: List[Any] = []
UUID_COUNTER: Dict[str, int] = {"n": 0}


def install_seams() -> None:
    global _installed
    if _installed:
        return
    _installed = True
    logging.disable(logging.CRITICAL)
    sys.unraisablehook = lambda *a, **k: None
    run_mod.datetime = SimDateTime  # type: ignore[attr-defined]
    import warnings
    warnings.simplefilter("ignore")

    def _seq() -> int:
        w = CLOCK.get("world")
        return len(w.events) if w is not None else -1

    def recording_get_task_delay(task: ScheduledTask, *args: Any, **kwargs: Any) -> Optional[int]:
        now = wall_us()
        try:
            res = _orig_get_task_delay(task, *args, **kwargs)
        except BaseException as exc:
            DELAY_LOG.append((now, task, ("raise", type(exc).__name__), _seq()))
            raise
        DELAY_LOG.append((now, task, res, _seq()))
        return res

    run_mod.get_task_delay = recording_get_task_delay  # type: ignore[assignment]
    # ScheduledTask's default schedule_id is uuid4().hex: behind the ids seam
    import taskiq.scheduler.scheduled_task.v2 as v2_mod

    def det_uuid4() -> Any:
        UUID_COUNTER["n"] += 1
        return types.SimpleNamespace(hex=f"{UUID_COUNTER['n']:032x}")

    v2_mod.uuid = types.SimpleNamespace(uuid4=det_uuid4)  # type: ignore[attr-defined]
    if "simtasks" not in sys.modules:
        sys.modules["simtasks"] = types.ModuleType("simtasks")


def call_get_task_delay(task: ScheduledTask, now_us: int, tz: str = "UTC") -> Any:
    """Direct call of the real function under a clock standing at now_us (sweep driver)."""
    install_seams()
    CLOCK["fixed_us"] = now_us
    CLOCK["local_off_min"] = TZ_OFFSETS.get(tz, 0)
    if tz != "UTC":
        set_process_tz(tz)
    try:
        return _orig_get_task_delay(task)
    finally:
        CLOCK["fixed_us"] = None
        if tz != "UTC":
            set_process_tz("UTC")


# ------------------------------------------------------------------ time values
def make_time(spec: dict) -> datetime:
    """{"us": epoch_us, "repr": "naive"|"utc"|"pytz:<zone>"|"zi:<zone>"|"fixed:<minutes>"} -> datetime"""
    utc = EPOCH + timedelta(microseconds=spec["us"])
    rp = spec.get("repr", "naive")
    if rp == "naive":
        return utc.replace(tzinfo=None)
    if rp == "utc":
        return utc.astimezone(pytz.UTC)
    if rp.startswith("fixed:"):
        return utc.astimezone(timezone(timedelta(minutes=int(rp[6:]))))
    if rp.startswith("fixeds:"):
        return utc.astimezone(timezone(timedelta(seconds=int(rp[7:]))))
    if rp.startswith("pytz:"):
        return utc.astimezone(pytz.timezone(rp[5:]))
    if rp.startswith("pytzraw:"):
        # the zone object attached directly as tzinfo (the classic pytz misuse): the value carries the zone's first (LMT) offset,
        # which is still a perfectly well defined instant
        tz = pytz.timezone(rp[8:])
        probe = datetime(2000, 1, 1, tzinfo=tz)
        wall = (utc + probe.utcoffset()).replace(tzinfo=None)
        return wall.replace(tzinfo=tz)
    if rp.startswith("zi:"):
        return utc.astimezone(ZoneInfo(rp[3:]))
    raise ValueError(rp)


def make_offset(spec: Any) -> Any:
    if spec is None:
        return None
    if "td_s" in spec:
        return timedelta(seconds=spec["td_s"])
    return spec["zone"]


def make_sched(spec: dict) -> ScheduledTask:
    kw: Dict[str, Any] = dict(
        task_name=spec["task"], labels={k: _dec(v) for k, v in (spec.get("labels") or {}).items()},
        args=[spec["id"]] + list(spec.get("args", [])), kwargs=dict(spec.get("kwargs") or {}), schedule_id=spec["id"],
    )
    if spec.get("cron") is not None:
        kw["cron"] = spec["cron"]
        kw["cron_offset"] = make_offset(spec.get("offset"))
        if spec.get("also_time") is not None:
            kw["time"] = make_time(spec["also_time"])
    else:
        kw["time"] = make_time(spec["time"])
        if spec.get("offset") is not None:
            kw["cron_offset"] = make_offset(spec["offset"])      # legal, and meaningless for a one-shot: its time is an instant
    return ScheduledTask(**kw)


def _dec(v: Any) -> Any:
    from .worker_world import dec_label
    return dec_label(v)


# ------------------------------------------------------------------------ world
class SchedWorld:
    def __init__(self, script: dict) -> None:
        self.script = script
        self.seed = script.get("run_seed", 0)
        cpu_cfg = script.get("cpu", {"on": True})
        ref: list = []
        cpu = make_cpu(stream(self.seed, "cpu"), 0.25, 0.002, ref) if cpu_cfg.get("on", True) else None
        self.loop = SimLoop(cpu=cpu, max_steps=script.get("max_steps", 400_000))
        ref.append(self.loop)
        self.events: List[list] = []
        self.closed = False
        self.fault_counts: Dict[str, int] = {}
        self.kick_n: Dict[str, int] = {}
        self.extra: Dict[str, Any] = {}

    def rec(self, kind: str, **kw: Any) -> None:
        if self.closed:
            return
        self.events.append([len(self.events), self.loop.now_us, wall_us(), kind, kw])

    def fired(self, kind: str) -> None:
        self.fault_counts[kind] = self.fault_counts.get(kind, 0) + 1


class RecBroker(AsyncBroker):
    def __init__(self, world: SchedWorld) -> None:
        super().__init__()
        self.world = world

    async def kick(self, message: BrokerMessage) -> None:
        w = self.world
        try:
            tm = self.formatter.loads(bytes(message.message))
            tm.parse_labels()
            marker = tm.args[0] if tm.args else None
            dec = {"task_name": tm.task_name, "args": tm.args, "kwargs": tm.kwargs, "labels": enc_labels(tm.labels), "task_id": tm.task_id}
        except Exception as exc:  # noqa: BLE001
            marker = None
            dec = {"undecodable": type(exc).__name__}
        n = w.kick_n.get(marker, 0)
        w.kick_n[marker] = n + 1
        specs = (w.script.get("kicks") or {}).get(str(marker)) or [{}]
        spec = specs[min(n, len(specs) - 1)]
        default_delay = (w.script.get("kicks") or {}).get("default_delay_us", 0)
        w.rec("kick_call", marker=marker, n=n, msg=dec, broker_labels=enc_labels(message.labels), task_name=message.task_name)
        d = spec.get("delay_us", default_delay)
        if d:
            w.fired("send_delay")
            await asyncio.sleep(d / 1e6)
        if spec.get("fail"):
            w.fired("send_fail")
            w.rec("kick_fail", marker=marker, n=n)
            raise SimFault("kick failed")
        w.rec("kick_ok", marker=marker, n=n)

    async def listen(self) -> Any:  # pragma: no cover
        raise RuntimeError("scheduler world does not listen")
        yield b""


class ScriptedSource(ScheduleSource):
    """Dynamic in-memory source: removes a one-shot in post_send (as the Redis/DB sources do)."""

    def __init__(self, world: SchedWorld, idx: int, spec: dict) -> None:
        self.world = world
        self.idx = idx
        self.spec = spec
        self.items: List[ScheduledTask] = [make_sched(s) for s in spec.get("schedules", [])]
        self.stamps: Dict[str, int] = {}
        self.calls = 0

    def __repr__(self) -> str:
        return f"ScriptedSource({self.idx})"

    async def get_schedules(self) -> List[ScheduledTask]:
        w = self.world
        n = self.calls
        self.calls += 1
        w.rec("list_call", source=self.idx, n=n)
        d = self.spec.get("list_delay_us", 0)
        if d:
            await asyncio.sleep(d / 1e6)
        if n in self.spec.get("fail_calls", []):
            w.fired("source_list_fail")
            w.rec("list_fail", source=self.idx, n=n)
            raise SimFault("listing failed")
        # a source may hand out its own list (the repository's test sources do) or a copy
        res = self.items if self.spec.get("live_list") else list(self.items)
        w.rec("list_ok", source=self.idx, n=n, ids=[s.schedule_id for s in res])
        return res

    async def add_schedule(self, schedule: ScheduledTask) -> None:
        # additions and withdrawals replace the list (a listing already handed out keeps what it listed); only post_send edits in place
        self.items = self.items + [schedule]

    async def delete_schedule(self, schedule_id: str) -> None:
        self.items = [s for s in self.items if s.schedule_id != schedule_id]

    def _pre(self, task: ScheduledTask) -> None:
        self.world.rec("pre_send", source=self.idx, id=task.schedule_id)
        if self.spec.get("pre_stamp"):
            # a source may modify the task it is about to send (a run counter, a trace label): labels and kwargs are stamped together
            n = self.stamps[task.schedule_id] = self.stamps.get(task.schedule_id, 0) + 1
            task.labels["run_no"] = str(n)
            task.kwargs["run_no"] = n
            self.world.fired("pre_send_modified_task")
        if task.schedule_id in self.spec.get("cancel", []):
            self.world.fired("cancelled")
            raise ScheduledTaskCancelledError

    def _post(self, task: ScheduledTask) -> None:
        self.world.rec("post_send", source=self.idx, id=task.schedule_id)
        if task.time is not None and task.cron is None and self.spec.get("remove_oneshot", True):
            self.items[:] = [s for s in self.items if s.schedule_id != task.schedule_id]

    def pre_send(self, task: ScheduledTask) -> Any:
        if self.spec.get("async_hooks"):
            async def run() -> None:
                d = self.spec.get("hook_us", 0)
                if d:
                    await asyncio.sleep(d / 1e6)
                self._pre(task)
            return run()
        return self._pre(task)

    def post_send(self, task: ScheduledTask) -> Any:
        if self.spec.get("async_hooks"):
            async def run() -> None:
                d = self.spec.get("hook_us", 0)
                if d:
                    await asyncio.sleep(d / 1e6)
                self._post(task)
            return run()
        return self._post(task)


class RecLabelSource(LabelScheduleSource):
    """The real LabelScheduleSource; only records calls (delegates everything)."""

    def __init__(self, broker: AsyncBroker, world: SchedWorld, idx: int) -> None:
        super().__init__(broker)
        self.world = world
        self.idx = idx

    def __repr__(self) -> str:
        return f"RecLabelSource({self.idx})"

    async def get_schedules(self) -> List[ScheduledTask]:
        n = self.world.extra.get(f"lcalls{self.idx}", 0)
        self.world.extra[f"lcalls{self.idx}"] = n + 1
        self.world.rec("list_call", source=self.idx, n=n)
        res = await super().get_schedules()
        self.world.rec("list_ok", source=self.idx, n=n, ids=[(s.args[0] if s.args else None) for s in res],
                       detail=[{"marker": s.args[0] if s.args else None, "task": s.task_name, "cron": s.cron,
                                "time_us": None if s.time is None else _to_us(s.time)} for s in res])
        return res

    def pre_send(self, task: ScheduledTask) -> Any:
        self.world.rec("pre_send", source=self.idx, id=task.args[0] if task.args else None)
        return super().pre_send(task)

    def post_send(self, task: ScheduledTask) -> Any:
        self.world.rec("post_send", source=self.idx, id=task.args[0] if task.args else None)
        return super().post_send(task)


def _to_us(t: datetime) -> int:
    if t.tzinfo is None:
        t = t.replace(tzinfo=UTC)
    delta = t - EPOCH
    return (delta.days * 86400 + delta.seconds) * 1_000_000 + delta.microseconds


class SRun:
    def __init__(self) -> None:
        self.events: List[list] = []
        self.end = ""
        self.fault_counts: Dict[str, int] = {}
        self.steps = 0
        self.sim_us = 0
        self.delay_log: List[Any] = []
        self.extra: Dict[str, Any] = {}
        self.script: dict = {}

    def digest(self) -> str:
        h = hashlib.sha256()
        h.update(json.dumps(self.events, sort_keys=True, default=repr).encode())
        return h.hexdigest()


def _noop_task(*a: Any, **k: Any) -> None:
    return None


def build(world: SchedWorld) -> Any:
    script = world.script
    broker = RecBroker(world)
    ids = {"n": 0}

    def gen_id() -> str:
        ids["n"] += 1
        return f"id{ids['n']}"

    broker.with_id_generator(gen_id)
    names = set()
    for src in script["sources"]:
        for s in src.get("schedules", []):
            names.add(s["task"])
    for op in script.get("ops", []):
        if op.get("sched"):
            names.add(op["sched"]["task"])
    for n in sorted(names):
        def fn() -> None:
            return None
        fn.__name__ = fn.__qualname__ = "fn_" + n
        fn.__module__ = "simtasks"
        broker.register_task(fn, task_name=n)
    sources: List[Any] = []
    for i, src in enumerate(script["sources"]):
        if src["kind"] == "scripted":
            sources.append(ScriptedSource(world, i, src))
        else:
            for t in src["tasks"]:
                entries = []
                for e in t["schedule"]:
                    ent: Dict[str, Any] = {}
                    if e.get("cron") is not None:
                        ent["cron"] = e["cron"]
                        if e.get("offset") is not None:
                            ent["cron_offset"] = make_offset(e["offset"])
                    if e.get("time") is not None:
                        ent["time"] = make_time(e["time"])
                        if e.get("cron") is None and e.get("offset") is not None:
                            ent["cron_offset"] = make_offset(e["offset"])
                    if "id" in e:
                        ent["args"] = [e["id"]] + list(e.get("args", []))
                    if e.get("kwargs"):
                        ent["kwargs"] = dict(e["kwargs"])
                    if e.get("labels") is not None:
                        ent["labels"] = {k: _dec(v) for k, v in e["labels"].items()}
                    entries.append(ent)

                def lf() -> None:
                    return None
                lf.__name__ = lf.__qualname__ = "fn_" + t["name"]
                lf.__module__ = "simtasks"
                labels = {k: _dec(v) for k, v in (t.get("labels") or {}).items()}
                target = async_shared_broker if t.get("foreign") else broker
                target.register_task(lf, task_name=t["name"], schedule=entries, **labels)
            sources.append(RecLabelSource(broker, world, i))
    scheduler = TaskiqScheduler(broker, sources)
    world.extra["broker"] = broker
    world.extra["sources"] = sources
    return scheduler


async def _main(world: SchedWorld) -> None:
    script = world.script
    loop = world.loop
    scheduler = build(world)
    world.rec("begin", epoch_us=CLOCK["epoch_us"])
    sctx = contextvars.copy_context()
    sctx.run(NODE.set, "scheduler")
    entry = script.get("entry", "loop")
    if entry == "task":
        coro = run_scheduler_task(scheduler, run_startup=False)
    elif entry in ("cli", "cli_skip"):
        # the `taskiq scheduler` command's coroutine, with the scheduler object handed over directly
        from taskiq.cli.scheduler.args import SchedulerArgs
        args = SchedulerArgs(scheduler=scheduler, modules=[], configure_logging=False, fs_discover=False, skip_first_run=(entry == "cli_skip"))
        coro = run_mod.run_scheduler(args)
    else:
        coro = run_mod.run_scheduler_loop(scheduler)
    task = loop.create_task(coro, context=sctx)
    for op in script.get("ops", []):
        def fire(op: dict = op) -> None:
            src = world.extra["sources"][op["source"]]
            if op["op"] == "add":
                src.items = src.items + [make_sched(op["sched"])]
                world.fired("schedule_add")
                world.rec("op_add", source=op["source"], id=op["sched"]["id"])
            elif op["op"] == "create":
                # a schedule created through the public kicker API: task.kicker().with_labels(..).schedule_by_time/cron(source, ...)
                sp = op["sched"]
                tk = world.extra["broker"].find_task(sp["task"])
                kicker = tk.kicker().with_schedule_id(sp["id"])
                if sp.get("labels"):
                    kicker = kicker.with_labels(**{k: _dec(v) for k, v in sp["labels"].items()})
                args = [sp["id"]] + list(sp.get("args", []))

                async def create() -> None:
                    try:
                        if sp.get("cron") is not None:
                            cron: Any = sp["cron"]
                            if sp.get("cronspec"):
                                from taskiq.scheduler.scheduled_task import CronSpec
                                f = sp["cron"].split(" ")
                                cron = CronSpec(minutes=f[0], hours=f[1], days=f[2], months=f[3], weekdays=f[4], offset=make_offset(sp.get("offset")))
                            created = await kicker.schedule_by_cron(src, cron, *args, **(sp.get("kwargs") or {}))
                        else:
                            created = await kicker.schedule_by_time(src, make_time(sp["time"]), *args, **(sp.get("kwargs") or {}))
                        world.rec("op_create", source=op["source"], id=sp["id"], got_id=created.schedule_id,
                                  in_source=sum(1 for x in src.items if x.schedule_id == sp["id"]))
                        if op.get("unschedule_after_us") is not None:
                            # CreatedSchedule.unschedule(): the schedule is withdrawn from its source again
                            await asyncio.sleep(op["unschedule_after_us"] / 1e6)
                            await created.unschedule()
                            world.fired("schedule_unscheduled")
                            world.rec("op_unschedule", source=op["source"], id=sp["id"],
                                      in_source=sum(1 for x in src.items if x.schedule_id == sp["id"]))
                    except Exception as exc:  # noqa: BLE001
                        world.rec("op_create_failed", source=op["source"], id=sp["id"], exc=type(exc).__name__)
                world.fired("schedule_create")
                loop.create_task(create())
            elif op["op"] == "remove":
                src.items = [s for s in src.items if s.schedule_id != op["id"]]
                world.fired("schedule_remove")
                world.rec("op_remove", source=op["source"], id=op["id"])
        loop.call_at_us(op["at_us"], fire)
    await asyncio.sleep(script["horizon_us"] / 1e6)
    world.rec("horizon")
    if task.done():
        exc = task.exception() if not task.cancelled() else None
        world.rec("scheduler_ended", exc=None if exc is None else type(exc).__name__)
    task.cancel()
    try:
        await task
    except BaseException:  # noqa: BLE001
        pass
    world.rec("end")


def simulate(script: dict) -> SRun:
    install_seams()
    reset_globals()
    DELAY_LOG.clear()
    UUID_COUNTER["n"] = 0
    world = SchedWorld(script)
    loop = world.loop
    CLOCK["epoch_us"] = script["start"]["epoch_us"]
    CLOCK["local_off_min"] = script["start"].get("local_off_min", 0)
    set_process_tz(script["start"].get("tz", "UTC"))
    CLOCK["loop"] = loop
    CLOCK["world"] = world
    CLOCK["fixed_us"] = None
    run = SRun()
    run.script = script
    gc_was = gc.isenabled()
    gc.disable()
    asyncio.set_event_loop(loop)
    try:
        main = loop.create_task(_main(world))
        try:
            loop.run_until_complete(main)
            run.end = "done"
        except Quiescent:
            run.end = "quiescent"
        except StepCap:
            run.end = "stepcap"
        except TimeCap:
            run.end = "timecap"
        except BaseException as exc:  # noqa: BLE001
            run.end = "escaped:" + type(exc).__name__
    finally:
        world.closed = True
        run.events = world.events
        run.fault_counts = dict(world.fault_counts)
        if loop.stalls:
            run.fault_counts["cpu_stall"] = loop.stalls
        run.steps = loop.steps
        run.sim_us = loop.now_us
        run.delay_log = list(DELAY_LOG)
        run.extra = world.extra
        run.extra["loop_errors"] = loop.errors
        try:
            loop.shutdown_sim()
        finally:
            asyncio.set_event_loop(None)
            CLOCK["loop"] = None
            CLOCK["world"] = None
            set_process_tz("UTC")
            if gc_was:
                gc.enable()
    return run

"""SimLoop: a virtual-time, single-threaded, fully deterministic asyncio event loop.

* integer-microsecond clock; jumps to the next timer when nothing is runnable;
* FIFO ready queue exactly like ``BaseEventLoop``; timers with equal deadline fire
  in registration order; timers never fire early;
* an optional seeded CPU-time model advances the clock after each handle;
* node tagging through a context variable: a *killed* node's handles are parked in a
  graveyard instead of being run (kill -9: no finally, no except);
* quiescence (nothing ready, no timer) and step / virtual-time caps are reported as
  exceptions out of ``run_until_complete``.

No selector, no self-pipe, no threads, no real clock.
"""
from __future__ import annotations

import asyncio
import contextvars
import heapq
import math
from asyncio import events
from typing import Any, Callable, List, Optional, Set

NODE: contextvars.ContextVar[str] = contextvars.ContextVar("SIM_NODE", default="harness")


class SimStop(Exception):
    """Base class of the three ways a simulation ends from inside the loop."""


class Quiescent(SimStop):
    """Nothing is ready and no timer is pending: nothing can ever run again."""


class StepCap(SimStop):
    pass


class TimeCap(SimStop):
    pass


class SimLoop(asyncio.BaseEventLoop):
    def __init__(
        self,
        cpu: Optional[Callable[[], int]] = None,
        max_steps: int = 200_000,
        max_time_us: int = 10**13,
        start_us: int = 0,
    ) -> None:
        super().__init__()
        self.now_us = start_us
        self._timers: List[Any] = []  # heap of (when_us, seq, handle)
        self._tseq = 0
        self.steps = 0
        self.max_steps = max_steps
        self.max_time_us = max_time_us
        self.cpu = cpu
        self.dead: Set[str] = set()
        self.graveyard: List[Any] = []
        self.errors: List[dict] = []
        self.stalls = 0
        self.set_exception_handler(self._on_exception)
        self._clock_resolution = 1e-6

    # ------------------------------------------------------------------ clock
    def time(self) -> float:
        return self.now_us / 1_000_000

    # ---------------------------------------------------------------- plumbing
    def _process_events(self, event_list: Any) -> None:  # pragma: no cover
        pass

    def _write_to_self(self) -> None:
        pass

    def _asyncgen_finalizer_hook(self, agen: Any) -> None:
        # never schedule aclose() from the garbage collector: it would make the
        # event order depend on GC timing.
        return

    def _asyncgen_firstiter_hook(self, agen: Any) -> None:
        return

    def _on_exception(self, loop: Any, context: dict) -> None:
        # recorded, never printed; never stamped with addresses
        exc = context.get("exception")
        self.errors.append(
            {"message": str(context.get("message")), "exc": type(exc).__name__ if exc else None},
        )

    def run_in_executor(self, executor: Any, func: Any, *args: Any) -> Any:
        if executor is None:
            raise RuntimeError("SimLoop has no default (threaded) executor")
        return asyncio.wrap_future(executor.submit(func, *args), loop=self)

    # ------------------------------------------------------------------ timers
    def call_at(self, when: float, callback: Any, *args: Any, context: Any = None) -> Any:
        self._check_closed()
        timer = events.TimerHandle(when, callback, args, self, context)
        when_us = int(math.ceil(when * 1_000_000 - 1e-3))
        self._tseq += 1
        heapq.heappush(self._timers, (when_us, self._tseq, timer))
        timer._scheduled = True
        return timer

    def call_at_us(self, when_us: int, callback: Any, *args: Any, context: Any = None) -> Any:
        self._check_closed()
        timer = events.TimerHandle(when_us / 1_000_000, callback, args, self, context)
        self._tseq += 1
        heapq.heappush(self._timers, (int(when_us), self._tseq, timer))
        timer._scheduled = True
        return timer

    def call_later_us(self, delay_us: int, callback: Any, *args: Any, context: Any = None) -> Any:
        return self.call_at_us(self.now_us + max(0, int(delay_us)), callback, *args, context=context)

    def _timer_handle_cancelled(self, handle: Any) -> None:
        pass

    # -------------------------------------------------------------------- kill
    def kill(self, node: str) -> None:
        self.dead.add(node)

    def _is_dead(self, handle: Any) -> bool:
        if not self.dead:
            return False
        ctx = handle._context
        return ctx is not None and ctx.get(NODE, "harness") in self.dead

    # --------------------------------------------------------------- main step
    def _run_once(self) -> None:
        timers = self._timers
        while timers and timers[0][2]._cancelled:
            heapq.heappop(timers)[2]._scheduled = False
        if not self._ready and not self._stopping:
            if not timers:
                raise Quiescent()
            nxt = timers[0][0]
            if nxt > self.max_time_us:
                raise TimeCap()
            if nxt > self.now_us:
                self.now_us = nxt
        while timers and timers[0][0] <= self.now_us:
            h = heapq.heappop(timers)[2]
            h._scheduled = False
            if not h._cancelled:
                self._ready.append(h)
        ready = self._ready
        cpu = self.cpu
        for _ in range(len(ready)):
            handle = ready.popleft()
            if handle._cancelled:
                continue
            if self.dead and self._is_dead(handle):
                self.graveyard.append(handle)
                continue
            self.steps += 1
            if self.steps > self.max_steps:
                raise StepCap()
            handle._run()
            if cpu is not None:
                d = cpu()
                if d:
                    self.now_us += d
        handle = None

    # ------------------------------------------------------------------- close
    def shutdown_sim(self) -> None:
        """Drop everything that is still pending without running it."""
        for t in asyncio.all_tasks(self):
            t._log_destroy_pending = False
        self._timers.clear()
        self._ready.clear()
        self.graveyard.clear()
        if not self.is_closed() and not self.is_running():
            self.close()


def make_cpu(rng: Any, p_busy: float = 0.25, p_stall: float = 0.004, loop_ref: Optional[list] = None) -> Callable[[], int]:
    """CPU-time model: 0 most of the time, else 1..300 us, rarely a 1..50 ms stall."""
    random = rng.random
    randint = rng.randint

    def cpu() -> int:
        r = random()
        if r >= p_busy:
            return 0
        if r < p_stall:
            if loop_ref:
                loop_ref[0].stalls += 1
            return randint(1_000, 50_000)
        return randint(1, 300)

    return cpu

"""Batch runner: seeded search, classification, minimisation, replay, evidence."""
from __future__ import annotations

import faulthandler
import hashlib
import json
import multiprocessing
import os
import subprocess
import sys
import time
import traceback
from concurrent.futures import ProcessPoolExecutor, as_completed
from typing import Any, Dict, List, Optional, Tuple

from .rng import run_seed

VERIF = os.path.dirname(os.path.dirname(os.path.abspath(__file__)))
REPO = os.environ.get("VERIF_REPO", "/repo")


class Violation:
    def __init__(self, cls: str, text: str, **facts: Any) -> None:
        self.cls = cls
        self.text = text
        self.facts = facts

    def to_json(self) -> dict:
        return {"class": self.cls, "text": self.text, "facts": self.facts}


# ------------------------------------------------------------------ known findings
def load_known() -> List[dict]:
    p = os.path.join(VERIF, "known_findings.json")
    if not os.path.exists(p):
        return []
    with open(p) as f:
        return json.load(f).get("findings", [])


def known_entry(prop: str, cls: str) -> Optional[dict]:
    for e in load_known():
        if e.get("property") == prop and e.get("class") == cls and e.get("status") == "open":
            return e
    return None


# ------------------------------------------------------------------------ one run
def one_run(mod: Any, script: dict) -> Tuple[Any, List[Violation]]:
    run = mod.simulate(script)
    viols = mod.oracle(script, run)
    end = str(getattr(run, "end", ""))
    if end.startswith("escaped:"):
        viols = list(viols) + [Violation(f"{mod.ID}/exception-escaped-event-loop",
                                         f"{end[8:]} escaped from a task and tore down the event loop (a real worker process would die)")]
    return run, viols


def signature(run: Any) -> int:
    h = hashlib.blake2b(digest_size=8)
    for e in run.events:
        h.update(f"{e[3]}:{e[4]}:{e[2]}|".encode())
    return int.from_bytes(h.digest(), "big")


def _chunk(args: Tuple[str, int, str, int, int]) -> dict:
    modname, batch_seed, tier, lo, hi = args
    faulthandler.dump_traceback_later(int(os.environ.get("VERIF_WATCHDOG_S", "600")), exit=True)
    mod = load_prop(modname)
    out: Dict[str, Any] = {
        "runs": 0, "viol": [], "probes": {}, "faults": {}, "sigs": [], "steps": 0, "sim_us": 0,
        "fault_free": 0, "ends": {}, "samples": [], "harness": [], "states": [],
    }
    states: set = set()
    for i in range(lo, hi):
        rs = run_seed(batch_seed, mod.ID, i)
        try:
            script = mod.gen(rs, tier, i)
            run, viols = one_run(mod, script)
        except Exception:  # harness error, never a verdict
            out["harness"].append({"index": i, "run_seed": rs, "trace": traceback.format_exc()[-3000:]})
            continue
        out["runs"] += 1
        out["steps"] += getattr(run, "steps", 0)
        out["sim_us"] += getattr(run, "sim_us", 0)
        end = getattr(run, "end", "done")
        out["ends"][end] = out["ends"].get(end, 0) + 1
        fc = getattr(run, "fault_counts", {}) or {}
        for k, v in fc.items():
            out["faults"][k] = out["faults"].get(k, 0) + v
        if not fc:
            out["fault_free"] += 1
        pr = mod.probes(script, run)
        for k, v in pr.items():
            out["probes"][k] = out["probes"].get(k, 0) + int(v)
        if mod.nontrivial(script, run):
            out["sigs"].append(mod.signature(run) if hasattr(mod, "signature") else signature(run))
        if hasattr(mod, "abstract_states"):
            states.update(mod.abstract_states(script, run))
        if viols:
            out["viol"].append({"index": i, "run_seed": rs, "script": script, "violations": [v.to_json() for v in viols]})
        if len(out["samples"]) < 1 and i % 97 == 0:
            out["samples"].append({"index": i, "run_seed": rs, "script": script, "events": _short_events(run)})
    out["states"] = list(states)
    faulthandler.cancel_dump_traceback_later()
    return out


def _short_events(run: Any, limit: int = 60) -> list:
    ev = getattr(run, "events", [])
    res = []
    for e in ev[:limit]:
        res.append(json.loads(json.dumps(e, default=repr)))
    return res


def load_prop(name: str) -> Any:
    import importlib
    return importlib.import_module("props." + name)


# --------------------------------------------------------------------- minimiser
def same_class(mod: Any, script: dict, cls: str) -> bool:
    try:
        _, viols = one_run(mod, script)
    except Exception:
        return False
    return any(v.cls == cls for v in viols)


def ddmin_list(items: list, test: Any, deadline: float) -> list:
    n = 2
    while len(items) >= 1 and time.time() < deadline:
        chunk = max(1, len(items) // n)
        reduced = False
        i = 0
        while i < len(items) and time.time() < deadline:
            cand = items[:i] + items[i + chunk:]
            if test(cand):
                items = cand
                n = max(n - 1, 2)
                reduced = True
            else:
                i += chunk
        if not reduced:
            if chunk == 1:
                break
            n = min(len(items), n * 2)
    return items


def minimise(mod: Any, script: dict, cls: str, budget_s: float = 20.0) -> dict:
    deadline = time.time() + budget_s
    cur = json.loads(json.dumps(script))
    if not same_class(mod, cur, cls):
        return cur  # JSON round trip changed behaviour: keep the original
    for key in getattr(mod, "LIST_KEYS", ("messages", "ops")):
        if key in cur and isinstance(cur[key], list):
            def test(items: list, key: str = key) -> bool:
                c = dict(cur)
                c[key] = items
                return same_class(mod, c, cls)
            cur[key] = ddmin_list(list(cur[key]), test, deadline)
    # simplifications proposed by the property module, greedy to a fixed point
    simplify = getattr(mod, "simplifications", None)
    if simplify is not None:
        progress = True
        while progress and time.time() < deadline:
            progress = False
            for cand in simplify(cur):
                if time.time() >= deadline:
                    break
                if same_class(mod, cand, cls):
                    cur = cand
                    progress = True
                    break
    return cur


def repo_state() -> dict:
    try:
        head = subprocess.run(["git", "-C", REPO, "rev-parse", "HEAD"], capture_output=True, text=True, timeout=20).stdout.strip()
        dirty = bool(subprocess.run(["git", "-C", REPO, "status", "--porcelain", "--untracked-files=no"], capture_output=True, text=True, timeout=20).stdout.strip())
    except Exception:
        head, dirty = "unknown", False
    return {"commit": head, "dirty": dirty}


def write_replay(mod: Any, rs: int, script: dict, cls: str, text: str) -> str:
    rdir = os.environ.get("VERIF_REPLAY_DIR", os.path.join(VERIF, "replays"))
    os.makedirs(rdir, exist_ok=True)
    run, viols = one_run(mod, script)
    for v in viols:
        if v.cls == cls:
            text = v.text
            break
    path = os.path.join(rdir, f"{mod.ID}-{rs}.json")
    with open(path, "w") as f:
        json.dump({
            "property": mod.ID, "module": mod.__name__.split(".")[-1], "run_seed": rs, "class": cls, "text": text,
            "script": script, "digest": run.digest() if hasattr(run, "digest") else None,
            "repo": repo_state(),
        }, f, indent=1, default=repr)
    return path


def replay(path: str) -> int:
    with open(path) as f:
        rp = json.load(f)
    mod = load_prop(rp["module"])
    run, viols = one_run(mod, rp["script"])
    for e in getattr(run, "events", []):
        print("  ", json.dumps(e, default=repr))
    dg = run.digest() if hasattr(run, "digest") else None
    print(f"digest={dg} recorded={rp.get('digest')} match={dg == rp.get('digest')}")
    hit = [v for v in viols if v.cls == rp["class"]]
    for v in viols:
        print(f"violation class={v.cls}: {v.text}")
    if hit:
        print(f"VIOLATION property={rp['property']} replay={path}")
        return 1
    print("replay: violation did not reproduce")
    return 0


# ------------------------------------------------------------------------- batch
def run_batch(modname: str, tier: str, batch_seed: int) -> int:
    t0 = time.time()
    mod = load_prop(modname)
    n_runs = mod.RUNS[tier]
    if os.environ.get("VERIF_RUNS_DIV"):
        # used by tools/mutation_survey.py only: a fraction of the tier's runs per check
        n_runs = max(200, n_runs // int(os.environ["VERIF_RUNS_DIV"]))
    budget = float(os.environ.get("VERIF_BUDGET_S", mod.BUDGET_S[tier]))
    jobs = int(os.environ.get("VERIF_JOBS", str(min(16, os.cpu_count() or 1))))
    chunk = int(getattr(mod, "CHUNK", 64))
    print(f"[{mod.ID}] tier={tier} VERIF_SEED={batch_seed} runs={n_runs} jobs={jobs} budget_s={budget}", flush=True)
    agg: Dict[str, Any] = {"runs": 0, "viol": [], "probes": {}, "faults": {}, "sigs": set(), "steps": 0, "sim_us": 0,
                           "fault_free": 0, "ends": {}, "samples": [], "harness": [], "states": set()}
    ranges = [(modname, batch_seed, tier, lo, min(lo + chunk, n_runs)) for lo in range(0, n_runs, chunk)]
    timed_out = False
    if jobs <= 1:
        results = []
        for r in ranges:
            if time.time() - t0 > budget:
                timed_out = True
                break
            results.append(_chunk(r))
    else:
        ctx = multiprocessing.get_context("fork")
        results = []
        with ProcessPoolExecutor(max_workers=jobs, mp_context=ctx) as ex:
            futs = []
            it = iter(ranges)
            active = set()
            # keep the pool fed, stop handing out work when the budget is gone
            def feed() -> None:
                while len(active) < jobs * 2:
                    try:
                        r = next(it)
                    except StopIteration:
                        return
                    if time.time() - t0 > budget:
                        return
                    active.add(ex.submit(_chunk, r))
            feed()
            while active:
                done = next(as_completed(active))
                active.discard(done)
                results.append(done.result())
                if time.time() - t0 > budget:
                    timed_out = True
                else:
                    feed()
    for r in results:
        agg["runs"] += r["runs"]
        agg["steps"] += r["steps"]
        agg["sim_us"] += r["sim_us"]
        agg["fault_free"] += r["fault_free"]
        agg["viol"].extend(r["viol"])
        agg["harness"].extend(r["harness"])
        agg["sigs"].update(r["sigs"])
        agg["states"].update(tuple(s) if isinstance(s, list) else s for s in r["states"])
        if len(agg["samples"]) < 3:
            agg["samples"].extend(r["samples"][: 3 - len(agg["samples"])])
        for k, v in r["probes"].items():
            agg["probes"][k] = agg["probes"].get(k, 0) + v
        for k, v in r["faults"].items():
            agg["faults"][k] = agg["faults"].get(k, 0) + v
        for k, v in r["ends"].items():
            agg["ends"][k] = agg["ends"].get(k, 0) + v

    # ---- classify violations
    new_v: Dict[str, dict] = {}
    known_v: Dict[str, dict] = {}
    for item in sorted(agg["viol"], key=lambda x: x["index"]):
        for v in item["violations"]:
            cls = v["class"]
            ke = known_entry(mod.ID, cls)
            bucket = known_v if ke else new_v
            if cls not in bucket:
                bucket[cls] = {"item": item, "v": v, "count": 0, "entry": ke}
            bucket[cls]["count"] += 1
    exit_code = 0
    lines: List[str] = []
    for cls, b in sorted(known_v.items()):
        lines.append(f"KNOWN-FINDING: property={mod.ID} {b['entry'].get('what', cls)} [class={cls} runs={b['count']}]")
    replays = []
    for cls, b in sorted(new_v.items()):
        item = b["item"]
        try:
            script = minimise(mod, item["script"], cls, float(os.environ.get("VERIF_MIN_S", "20")))
        except Exception:  # a minimiser problem must never hide the violation
            lines.append("warning: minimisation failed, replay holds the original script\n" + traceback.format_exc()[-1500:])
            script = item["script"]
        path = write_replay(mod, item["run_seed"], script, cls, b["v"]["text"])
        replays.append(path)
        lines.append(f"violation class={cls} runs={b['count']} first_index={item['index']} run_seed={item['run_seed']}: {b['v']['text']}")
        lines.append(f"VIOLATION property={mod.ID} replay={path}")
        exit_code = 1
    if agg["harness"]:
        h = agg["harness"][0]
        lines.append(f"HARNESS-ERROR property={mod.ID} count={len(agg['harness'])} first_index={h['index']}\n{h['trace']}")
        if exit_code == 0:
            exit_code = 2
    wall = time.time() - t0
    for k, v in sorted(agg["probes"].items()):
        if v == 0:
            lines.append(f"warning: probe {k} stayed at zero")
    # ---- evidence
    ev = {
        "property_id": mod.ID,
        "tier": tier,
        "seed": batch_seed,
        "level": "exploration",
        "coverage": {
            "evaluations": agg["runs"],
            "distinct_nontrivial": len(agg["sigs"]),
            "rule": mod.RULE,
            "samples": agg["samples"] or [{"note": "no sample captured"}],
            "runs_per_hour": int(agg["runs"] / wall * 3600) if wall > 0 else 0,
            "seeds": {"VERIF_SEED": batch_seed, "indices": [0, n_runs - 1], "derivation": "run_seed=sha256(f'{VERIF_SEED}:{property}:{index}')[:8]"},
            "simulated_seconds": round(agg["sim_us"] / 1e6, 3),
            "loop_steps": agg["steps"],
            "fault_counts": dict(sorted(agg["faults"].items())),
            "probes": dict(sorted(agg["probes"].items())),
            "abstract_states": len(agg["states"]),
            "fault_free_runs": agg["fault_free"],
            "fault_runs": agg["runs"] - agg["fault_free"],
            "run_endings": agg["ends"],
            "components_real": getattr(mod, "COMPONENTS_REAL", []),
            "components_stub": getattr(mod, "COMPONENTS_STUB", []),
            "known_findings_seen": {c: b["count"] for c, b in known_v.items()},
            "new_violation_classes": {c: b["count"] for c, b in new_v.items()},
            "budget_exhausted": timed_out,
            "harness_errors": len(agg["harness"]),
            "repo": repo_state(),
        },
        "assumptions": getattr(mod, "ASSUMPTIONS", []),
        "wall_s": round(wall, 2),
        "violations": sum(b["count"] for b in new_v.values()),
    }
    edir = os.environ.get("VERIF_EVIDENCE_DIR", os.path.join(VERIF, "evidence"))
    os.makedirs(edir, exist_ok=True)
    with open(os.path.join(edir, f"{mod.ID}.json"), "w") as f:
        json.dump(ev, f, indent=1, default=repr)
    print(f"[{mod.ID}] runs={agg['runs']} distinct_nontrivial={len(agg['sigs'])} wall={wall:.1f}s "
          f"runs/h={ev['coverage']['runs_per_hour']} sim_s={ev['coverage']['simulated_seconds']} ends={agg['ends']}")
    print(f"[{mod.ID}] faults={ev['coverage']['fault_counts']}")
    print(f"[{mod.ID}] probes={ev['coverage']['probes']}")
    for ln in lines:
        print(ln)
    if exit_code == 0:
        print(f"[{mod.ID}] OK: property held on everything explored")
    sys.stdout.flush()
    return exit_code

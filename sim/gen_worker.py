"""Seeded generator of worker-world scenario scripts (swarm style, knob-biased)."""
from __future__ import annotations

import base64
import json
from typing import Any, Dict, List, Optional

from .rng import stream

DEFAULT_KNOBS: Dict[str, Any] = {
    "n_msgs": (1, 12),
    "A": [None, 1, 1, 2, 2, 3, 4],
    "P": [0, 0, 1, 2, 3, 4],
    "N": [None, None, None, 1, 2, 3, 4, 6],
    "W": [None, None, 0.2, 1.0, 5.0],
    "workers": [1, 1, 1, 2, 3],
    "ack_type": ["when_received", "when_executed", "when_saved", None],
    "ackable": [True, True, False, "mixed"],
    "p_ack_async": 0.4,
    "p_stop": 0.4,
    "p_faults": 0.5,           # probability that this run injects faults at all
    "p_malformed": 0.08,
    "p_unknown": 0.06,
    "p_dup": 0.06,
    "p_kick_delay": 0.3,
    "p_kick_fail": 0.0,
    "p_save_fail": 0.08,
    "p_save_delay": 0.2,
    "p_ack_delay": 0.3,
    "p_hook_raise": 0.0,
    "p_ack_fail": 0.0,
    "p_cancel_fault": 0.0,      # an awaited hook / ack / set_result is cancelled from outside (CancelledError in the callback task)
    "p_timeout": 0.1,
    "p_sync": 0.15,
    "p_deps": 0.2,
    "p_never": 0.0,
    "p_crash": 0.0,
    "outcomes": {"ret": 10, "exc": 3, "baseexc": 1, "nores": 1, "requeue": 0},
    "middlewares": (0, 2),
    "p_mw_replace": 0.3,
    "retry": None,
    "serializer": ["json", "json", "pickle"],
    "formatter": ["proxy", "proxy", "json"],
    "store": ["object", "json", "pickle"],
    "durations": {"zero": 2, "tiny": 3, "short": 4, "medium": 3, "long": 2, "poll": 1},
    "arrival": ["burst", "trickle", "waves"],
    "uncached_deps": False,
    "dep_styles": ["plain", "coro", "gen", "agen", "cm", "acm"],
    "max_dep_nodes": 4,
    "p_dep_fail": 0.0,
    "propagate": [True, True, False],
    "validate_params": [True, True, False],
    "p_probe": 0.0,
    "p_register_late": 0.15,
    "p_gc": 0.1,
    "cpu": True,
    "swarm": True,
}

EXC_NAMES = ["ValueError", "KeyError", "RuntimeError", "SimError", "ZeroDivisionError", "SimBadStr", "TimeoutError", "SimTimeout", "SimFalsy"]
KICK_EXC_NAMES = ["SimFault", "SimFault", "RuntimeError", "TimeoutError", "OSError", "BrokerError", "UnknownTaskError", "TaskiqError", "SendTaskError", "ResultGetError"]
BASE_EXC_NAMES = ["KeyboardInterrupt", "SystemExit", "SimBaseError", "CancelledError"]
HOOKS_WORKER = ["pre_execute", "on_error", "post_execute", "post_save"]
HOOKS_CLIENT = ["pre_send", "post_send"]


def wchoice(r: Any, weights: Dict[str, int]) -> str:
    items = [(k, w) for k, w in weights.items() if w > 0]
    tot = sum(w for _, w in items)
    x = r.random() * tot
    for k, w in items:
        x -= w
        if x < 0:
            return k
    return items[-1][0]


def duration(r: Any, weights: Dict[str, int]) -> int:
    c = wchoice(r, weights)
    if c == "zero":
        return 0
    if c == "tiny":
        return r.randint(1, 500)
    if c == "short":
        return r.randint(1_000, 50_000)
    if c == "medium":
        return r.randint(50_000, 400_000)
    if c == "long":
        return r.randint(500_000, 3_000_000)
    if c == "poll":
        return 300_000 * r.randint(1, 3) + r.choice([-1, 0, 0, 1])
    if c == "vlong":
        return r.randint(4_000_000, 15_000_000)           # longer than any polling / logging interval a waiting loop might use
    if c == "tie":
        return r.choice([1_000, 50_000, 300_000])      # a few exact values: several bodies end in the very same loop iteration
    raise ValueError(c)


def gen_deps(r: Any, kn: dict) -> dict:
    """A dependency DAG of depth <= 3 for one task template."""
    n = r.randint(1, kn["max_dep_nodes"])
    nodes: List[dict] = []
    depth: Dict[str, int] = {}
    for i in range(n):
        nid = f"d{i}"
        style = r.choice(kn["dep_styles"])
        subs = []
        cands = [x for x in nodes if depth[x["id"]] < 2]
        for c in cands:
            if r.random() < 0.4:
                cache = True
                if kn["uncached_deps"] and r.random() < 0.5:
                    cache = False
                subs.append([c["id"], cache])
        depth[nid] = 1 + max([depth[s] for s, _ in subs], default=0)
        node = {"id": nid, "style": style, "deps": subs, "ctx": r.random() < 0.6, "ctxbound": style in ("gen", "agen", "cm", "acm") and r.random() < 0.3,
                "us": [duration(r, {"zero": 3, "tiny": 3, "short": 2}), duration(r, {"zero": 3, "tiny": 3, "short": 2})]}
        nodes.append(node)
    # roots: nodes nobody depends on, plus maybe others
    used = {s for nd in nodes for s, _ in nd["deps"]}
    root = []
    for nd in nodes:
        if nd["id"] not in used or r.random() < 0.3:
            cache = True
            if kn["uncached_deps"] and r.random() < 0.5:
                cache = False
            root.append([nd["id"], cache])
    return {"deps": nodes, "root": root}


def gen_tasks(r: Any, kn: dict) -> List[dict]:
    tasks = [{"name": "t0", "ctx": True, "sync": False, "deps": [], "root": []}]
    if r.random() < kn["p_sync"] * 3:
        tasks.append({"name": "ts", "ctx": False, "sync": True, "deps": [], "root": []})
    if r.random() < kn["p_deps"] * 3:
        for j in range(r.randint(1, 2)):
            g = gen_deps(r, kn)
            tasks.append({"name": f"td{j}", "ctx": r.random() < 0.7, "sync": False, **g})
    for t in tasks:
        # registered on the worker's broker only after its Receiver was constructed (prepared lazily at the first execution)
        if r.random() < kn.get("p_register_late", 0.15):
            t["register_late"] = True
    return tasks


def gen_attempt(r: Any, kn: dict, faults: bool, sync: bool, has_ctx: bool) -> dict:
    nsteps = r.choice([1, 1, 1, 2, 3])
    steps = [duration(r, kn["durations"]) for _ in range(nsteps)]
    oc = wchoice(r, kn["outcomes"])
    if oc == "exc":
        out = ["exc", r.choice(EXC_NAMES)]
    elif oc == "baseexc":
        out = ["exc", r.choice(BASE_EXC_NAMES)]
    elif oc == "nores":
        out = ["nores"]
    elif oc == "requeue" and has_ctx and not sync:
        out = ["requeue"]
    elif oc == "reject" and has_ctx and not sync:
        out = ["reject"]
    else:
        out = ["ret"]
    if not sync and kn["p_never"] and r.random() < kn["p_never"]:
        out = ["never"]
    att = {"steps": steps, "out": out}
    if not sync and kn.get("p_cleanup") and r.random() < kn["p_cleanup"]:
        att["cleanup_us"] = duration(r, {"short": 1, "medium": 2, "long": 2})     # the body takes this long to unwind when cancelled
    return att


def malformed_payload(r: Any) -> bytes:
    c = r.randint(0, 6)
    if c >= 5:
        return r.choice([b"-1", b"-1", b"", b"", b"null", b"0", b"[]"])      # tiny payloads, incl. the receiver's private end-of-queue marker value
    if c == 0:
        return bytes(r.randint(0, 255) for _ in range(r.randint(0, 24)))
    if c == 1:
        return b'{"a": 1}'
    if c == 2:
        return json.dumps({"task_id": "mx", "task_name": "t0", "labels": {"x": "1"}, "labels_types": {"x": 99},
                           "args": [0], "kwargs": {}}).encode()
    if c == 3:
        return json.dumps({"task_id": "mx", "task_name": "t0", "labels": {"x": "zz"}, "labels_types": {"x": 2},
                           "args": [0], "kwargs": {}}).encode()[: r.randint(5, 60)]
    return json.dumps({"task_id": "mx", "task_name": "t0", "labels": {"x": "notint"}, "labels_types": {"x": 2},
                       "args": [0], "kwargs": {}}).encode()


def gen_worker_script(rs: int, knobs: Optional[dict] = None) -> dict:
    kn = dict(DEFAULT_KNOBS)
    if knobs:
        kn.update(knobs)
    rc = stream(rs, "config")
    # swarm: half of the runs switch a random subset of fault / workload kinds off and boost another subset,
    # so that rare combinations are not always drowned by the common ones
    rsw = stream(rs, "swarm")
    if kn.get("swarm", True) and rsw.random() < 0.5:
        for key in ("p_malformed", "p_unknown", "p_dup", "p_kick_delay", "p_save_fail", "p_save_delay", "p_ack_delay", "p_hook_raise",
                    "p_timeout", "p_sync", "p_never", "p_dep_fail"):
            if kn.get(key):
                x = rsw.random()
                if x < 0.3:
                    kn[key] = 0.0
                elif x < 0.5:
                    kn[key] = min(0.9, kn[key] * 3)
        oc = dict(kn["outcomes"])
        for name in list(oc):
            if oc[name] and name != "ret" and rsw.random() < 0.3:
                oc[name] = 0
        kn["outcomes"] = oc
        dw = dict(kn["durations"])
        boost = rsw.choice(list(dw))
        if dw[boost]:
            dw[boost] *= 4
        kn["durations"] = dw
    faults = rc.random() < kn["p_faults"]
    cfg: Dict[str, Any] = {
        "workers": rc.choice(kn["workers"]),
        "A": rc.choice(kn["A"]),
        "P": rc.choice(kn["P"]),
        "N": rc.choice(kn["N"]),
        "W": rc.choice(kn["W"]),
        "ack_type": rc.choice(kn["ack_type"]),
        "ackable": rc.choice(kn["ackable"]),
        "ack_async": rc.random() < kn["p_ack_async"],
        "serializer": rc.choice(kn["serializer"]),
        "formatter": rc.choice(kn["formatter"]),
        "store": rc.choice(kn["store"]),
        "propagate": rc.choice(kn["propagate"]),
        "validate_params": rc.choice(kn["validate_params"]),
        "faults": faults,
    }
    if kn.get("p_warn_error") and stream(rs, "warn_error").random() < kn["p_warn_error"]:
        cfg["warn_error"] = True          # the worker process runs with `-W error::RuntimeWarning -W error::UserWarning`
    if cfg["A"] is None:
        # "no limit" has three spellings: None, 0 and any negative number
        cfg["A_raw"] = stream(rs, "a_raw").choice([None, None, 0, 0, -1, -5])
    mws = []
    lo, hi = kn["middlewares"]
    for i in range(rc.randint(lo, hi)):
        hooks = {}
        for h in HOOKS_CLIENT + HOOKS_WORKER:
            if rc.random() < 0.6:
                hs: Dict[str, Any] = {"async": rc.random() < 0.5}
                if hs["async"]:
                    hs["us"] = duration(rc, {"zero": 3, "tiny": 3, "short": 2})
                    if rc.random() < 0.25:
                        hs["ret"] = rc.choice(["future", "lazy"])     # a sync method returning a Task / a lazy awaitable
                if h in ("pre_send", "pre_execute") and rc.random() < kn["p_mw_replace"]:
                    hs["replace"] = True
                hooks[h] = hs
        mws.append({"hooks": hooks})
    if kn["retry"] is not None:
        mws.insert(rc.randint(0, len(mws)), {"retry": kn["retry"]})
        if stream(rs, "retry_sub").random() < 0.35:
            # a project subclass of the stock retry middleware that defines no hook itself (all of them are inherited)
            cfg["retry_sub"] = True
    cfg["middlewares"] = mws
    if len(mws) >= 2 and rc.random() < 0.4:
        cfg["mw_split"] = [rc.randint(1, len(mws) - 1), rc.choice(["with+with", "add+with", "with+add", "add+add"])]
    plain = [i for i, mw in enumerate(mws) if mw.get("retry") is None]
    if len(plain) >= 2 and rc.random() < 0.3:
        a, b = sorted(rc.sample(plain, 2))
        cfg["mw_inherit"] = [b, a]            # the class of middleware b derives from the class of middleware a
    if mws and rc.random() < 0.15:
        cfg["mw_bare"] = rc.randint(0, len(mws))
    if rc.random() < 0.5:
        cfg["pool_size"] = rc.choice([1, 3, 8, 16])      # explicit size of the sync-task pool (api: sync_workers, cli: --max-threadpool-threads)
    tasks = gen_tasks(rc, kn)
    n_real = len(tasks)
    tasks.append({"name": "ghost", "client_only": True, "ctx": False, "sync": False, "deps": [], "root": []})
    n = rc.randint(*kn["n_msgs"])
    arrival = rc.choice(kn["arrival"])
    msgs: List[dict] = []
    t = 0
    for k in range(n):
        r = stream(rs, f"msg:{k}")
        if arrival == "burst":
            t = r.randint(0, 200)
        elif arrival == "trickle":
            t += duration(r, {"tiny": 2, "short": 3, "medium": 3, "poll": 1})
        else:
            if r.random() < 0.3:
                t += duration(r, {"medium": 2, "long": 1, "poll": 1})
            else:
                t += r.randint(0, 300)
        m: Dict[str, Any] = {"k": k, "send_at_us": t, "kind": "valid"}
        if faults and r.random() < kn["p_malformed"]:
            m["kind"] = "malformed"
            raw = malformed_payload(r)
            if cfg["serializer"] == "pickle" and cfg["formatter"] == "proxy":
                # random bytes can be a "pickle bomb" for CPython's unpickler (13 bytes with a LONG_BINPUT memo index of
                # 3.8e9 kept pickle.loads busy for 488 s and tens of GB): that is pickle on hostile input, not taskiq.
                # Keep the payload malformed but make the unpickler reject it at the first opcode.
                raw = b"\x00" + raw
            m["raw_b64"] = base64.b64encode(raw).decode()
            msgs.append(m)
            continue
        if faults and r.random() < kn["p_unknown"]:
            m["kind"] = "unknown"
            m["task_name"] = "ghost"
            msgs.append(m)
            continue
        ti = r.randrange(n_real)
        ts = tasks[ti]
        m["task"] = ti
        natt = 1 if kn["retry"] is None and kn["outcomes"].get("requeue", 0) == 0 else r.randint(1, 4)
        m["attempts"] = [gen_attempt(r, kn, faults, ts.get("sync", False), ts.get("ctx", False)) for _ in range(natt)]
        if natt > 1 and m["attempts"][-1]["out"] == ["requeue"]:
            m["attempts"][-1]["out"] = ["ret"]
        if natt == 1 and m["attempts"][0]["out"] == ["requeue"]:
            m["attempts"].append({"steps": [duration(r, kn["durations"])], "out": ["ret"]})
        if ts.get("sync"):
            m["pool_delay_us"] = duration(r, {"zero": 3, "tiny": 2, "short": 2})
        net: Dict[str, Any] = {}
        if r.random() < kn["p_kick_delay"]:
            net["delay_us"] = duration(r, {"tiny": 3, "short": 3, "medium": 1})
        if faults and r.random() < kn["p_dup"]:
            net["dup"] = True
            net["dup_delay_us"] = duration(r, {"tiny": 2, "short": 2, "medium": 1}) + 1
        if faults and kn["p_kick_fail"] and r.random() < kn["p_kick_fail"]:
            net["fail"] = True
            net["fail_exc"] = r.choice(KICK_EXC_NAMES)
        if net:
            m["net"] = [net, {"delay_us": net.get("delay_us", 0)}]
        if faults:
            saves = []
            for _ in range(natt):
                sv: Dict[str, Any] = {}
                if r.random() < kn["p_save_fail"]:
                    sv["fail"] = True
                if r.random() < kn["p_save_delay"]:
                    sv["delay_us"] = duration(r, {"tiny": 2, "short": 3, "medium": 1})
                saves.append(sv)
            if any(saves):
                m["save"] = saves
            if kn["p_hook_raise"] and r.random() < kn["p_hook_raise"] and mws:
                cands = [(h, i) for i, mw in enumerate(mws) for h in mw.get("hooks", {}) if h in HOOKS_WORKER]
                if cands:
                    h, i = r.choice(cands)
                    m["hook_raise"] = [[h, i]]
            if kn["p_cancel_fault"] and r.random() < kn["p_cancel_fault"]:
                c = r.randint(0, 2)
                cands = [(h, i) for i, mw in enumerate(mws) for h in mw.get("hooks", {}) if h in HOOKS_WORKER]
                if c == 0 and cands:
                    h, i = r.choice(cands)
                    m["hook_raise"] = [[h, i, "cancel"]]
                elif c == 1:
                    m["ack"] = {"async": True, "cancel": True}
                else:
                    m["save"] = [{"cancel": True}]
        else:
            if r.random() < kn["p_save_delay"]:
                m["save"] = [{"delay_us": duration(r, {"tiny": 2, "short": 3, "medium": 1})}]
        if r.random() < kn["p_ack_delay"]:
            m["ack"] = {"delay_us": duration(r, {"tiny": 3, "short": 2, "medium": 1}), "async": r.random() < 0.5}
            if m["ack"]["async"] and r.random() < 0.3:
                m["ack"]["ret"] = r.choice(["future", "lazy"])        # the ack callable returns a Future / a lazy awaitable
        if faults and kn.get("p_ack_fail") and r.random() < kn["p_ack_fail"]:
            m["ack"] = {"fail": True, "async": r.random() < 0.5}      # the broker's ack callable raises (connection lost)
        if cfg["ackable"] == "mixed":
            m["ackable"] = r.random() < 0.6
        if not ts.get("sync") and r.random() < kn["p_timeout"]:
            tot = sum(m["attempts"][0]["steps"])
            c = r.randint(0, 3)
            if c == 0:
                tmo = max(1, tot + r.choice([-1, 0, 1]))
            elif c == 1:
                tmo = max(1, tot // 2)
            else:
                tmo = tot + r.randint(1_000, 500_000)
            m["timeout"] = tmo / 1e6
            if tot > 0 and r.random() < kn.get("p_zero_timeout", 0.0):
                m["timeout"] = r.choice([0, 0.0])       # a zero timeout label: the body must not get to run to completion
            if r.random() < 0.5:
                for a in m["attempts"]:
                    a["cleanup_us"] = duration(r, {"tiny": 2, "short": 3, "medium": 2})
        if ts.get("deps"):
            du = {}
            for nd in ts["deps"]:
                if nd["style"] in ("coro", "agen", "acm") and r.random() < 0.6:
                    du[nd["id"]] = [duration(r, {"zero": 2, "tiny": 3, "short": 3}), duration(r, {"zero": 2, "tiny": 3, "short": 3})]
            if du:
                m["dep_us"] = du
            if kn["p_dep_fail"] and r.random() < kn["p_dep_fail"]:
                m["dep_fail"] = r.choice(ts["deps"])["id"]
        msgs.append(m)
    ops: List[dict] = []
    ro = stream(rs, "ops")
    last = max([m["send_at_us"] for m in msgs], default=0)
    for w in range(cfg["workers"]):
        if ro.random() < kn["p_stop"]:
            ops.append(gen_trigger(ro, {"op": "stop", "w": w}, n, last))
    if faults and kn["p_crash"] and ro.random() < kn["p_crash"]:
        w = ro.randrange(cfg["workers"])
        op = gen_trigger(ro, {"op": "crash", "w": w, "redeliver_us": ro.choice([0, 1, 1000, 300_000])}, n, last, crash=True)
        ops.append(op)
        if ro.random() < 0.8:
            ops.append({"op": "restart", "w": w, "after": ["crash", 1], "plus_us": ro.choice([0, 1, 1000, 500_000])})
    rg = stream(rs, "gc")
    if rg.random() < kn.get("p_gc", 0.1):
        # garbage collections at scripted instants while task bodies wait on futures nothing else references
        for m in msgs:
            for a in m.get("attempts", []):
                if rg.random() < 0.6:
                    a["weak_wait"] = True
        for _ in range(rg.randint(1, 3)):
            ops.append(gen_trigger(rg, {"op": "gc"}, n, last))
    script: Dict[str, Any] = {"world": "worker", "run_seed": rs, "config": cfg, "tasks": tasks, "messages": msgs, "ops": ops,
                              "cpu": {"on": bool(kn["cpu"]) and rc.random() < 0.8}}
    if kn["p_probe"] and rc.random() < kn["p_probe"]:
        a = cfg["A"] or 0
        script["probe"] = {"n": (a + 2) if a else 4, "dur_us": rc.choice([200_000, 1_000_000]), "task": 0}
    return script


def tier_knobs(knobs: dict, tier: str, index: int) -> dict:
    """Thorough tier: every fifth run is three times as long (more messages), every seventh has more workers."""
    kn = dict(knobs)
    if tier == "thorough":
        base = {**DEFAULT_KNOBS, **kn}
        if index % 5 == 0:
            lo, hi = base["n_msgs"]
            kn["n_msgs"] = (lo, max(hi, min(48, hi * 3)))
        if index % 7 == 0 and 3 in base["workers"]:
            kn["workers"] = [2, 3, 3]
    return kn


def gen_trigger(r: Any, op: dict, n_msgs: int, last_us: int, crash: bool = False) -> dict:
    c = r.randint(0, 9)
    if c <= 2:
        op["at_us"] = r.randint(0, last_us + 600_000)
    else:
        kinds = ["take", "take", "cb_enter", "cb_exit", "enqueue", "fn_enter", "fn_exit"]
        if crash:
            kinds += ["fn_exit", "save_enter", "save_exit", "ack_call", "ack_done", "fn_exit", "save_exit"]
        op["after"] = [r.choice(kinds), r.randint(1, max(1, n_msgs))]
        op["plus_us"] = r.choice([0, 0, 0, 1, 1, 50, 1000, 299_999, 300_000, 300_001, r.randint(0, 400_000)])
    return op

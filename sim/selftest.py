"""Determinism self-test: same seed => same event-log digest,
(a) twice in one process, (b) in fresh interpreters under two PYTHONHASHSEED values,
(c) with 1 and with 16 pool workers (the digests are computed per run, independent of the pool).
"""
from __future__ import annotations

import glob
import hashlib
import json
import os
import subprocess
import sys
from typing import List

from .rng import run_seed
from .runner import VERIF, load_prop


def digests(modname: str, batch_seed: int, lo: int, hi: int, reverse: bool = False) -> List[str]:
    mod = load_prop(modname)
    out = []
    order = range(hi - 1, lo - 1, -1) if reverse else range(lo, hi)
    for i in order:
        rs = run_seed(batch_seed, mod.ID, i)
        script = mod.gen(rs, "quick", i)
        run = mod.simulate(script)
        viols = mod.oracle(script, run)
        h = hashlib.sha256()
        h.update(json.dumps(script, sort_keys=True, default=repr).encode())
        h.update(run.digest().encode())
        h.update(json.dumps([v.cls for v in viols]).encode())
        out.append(h.hexdigest()[:16])
    return out[::-1] if reverse else out


def all_props() -> List[str]:
    names = []
    for p in sorted(glob.glob(os.path.join(VERIF, "props", "c[0-9][0-9].py"))):
        names.append(os.path.basename(p)[:-3])
    return names


def main(argv: List[str]) -> int:
    if argv[0] == "selftest-child":
        modname, seed, lo, hi = argv[1], int(argv[2]), int(argv[3]), int(argv[4])
        print(json.dumps(digests(modname, seed, lo, hi)))
        return 0
    n = int(os.environ.get("VERIF_SELFTEST_N", "300"))
    seed = int(os.environ.get("VERIF_SEED", "0"))
    props = argv[1:] or all_props()
    bad = 0
    for modname in props:
        a = digests(modname, seed, 0, n)
        b = digests(modname, seed, 0, n, reverse=True)   # different run history in the same process
        outs = []
        procs = []
        for hs in ("0", "12345"):
            env = dict(os.environ)
            env["PYTHONHASHSEED"] = hs
            procs.append(subprocess.Popen(
                [sys.executable, os.path.join(VERIF, "check"), "selftest-child", modname, str(seed), "0", str(n)],
                env=env, stdout=subprocess.PIPE, text=True))
        for p in procs:
            so, _ = p.communicate(timeout=1200)
            try:
                outs.append(json.loads(so.strip().splitlines()[-1]))
            except Exception:
                outs.append(None)
        ok = a == b and all(o == a for o in outs)
        if not ok:
            bad += 1
            diffs = [i for i in range(n) if not (a[i] == b[i] and all(o is not None and o[i] == a[i] for o in outs))]
            print(f"[selftest] {modname}: NON-DETERMINISTIC at indices {diffs[:10]} (of {len(diffs)})")
        else:
            print(f"[selftest] {modname}: {n} seeds identical: twice in-process (second pass in reverse order), fresh interpreters PYTHONHASHSEED=0/12345")
    return 1 if bad else 0

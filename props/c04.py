"""C04 — prefetch is bounded: at most A + P + 1 unfinished messages per worker."""
from __future__ import annotations

from typing import Any, Dict, List

from sim.gen_worker import gen_worker_script, tier_knobs
from ._wcommon import (ASSUMPTIONS, COMPONENTS_REAL, COMPONENTS_STUB, Hist, Violation, default_nontrivial,  # noqa: F401
                       simplifications, simulate)

from ._wcommon import abstract_states  # noqa: F401,E402

ID = "C04"
RUNS = {"quick": 10000, "thorough": 150000}
BUDGET_S = {"quick": 60, "thorough": 900}
RULE = ("seeded scenario scripts biased to backlog >= A+P+3, long tasks and bursts, 1..3 workers on one broker server; "
        "12% of the runs use run_receiver_task with one or two listen() failures while tasks are in flight (bound judged per receiver "
        "session); a run is non-trivial if two deliveries overlapped inside callback() or a fault fired; distinct = distinct "
        "interleaving signature (ordered (event kind, delivery ordinal, node) with times erased)")

KNOBS = {
    "n_msgs": (4, 16),
    "A": [1, 1, 2, 2, 3, 4],
    "P": [0, 1, 2, 3, 4],
    "N": [None, None, None, None, 3, 8],
    "W": [None],
    "p_stop": 0.15,
    "p_faults": 0.4,
    "p_timeout": 0.2,
    "p_cancel_fault": 0.12,
    "p_ack_fail": 0.08,
    "p_deps": 0.05,
    "durations": {"zero": 1, "tiny": 1, "short": 2, "medium": 4, "long": 4, "poll": 2, "tie": 3, "vlong": 1},
    "arrival": ["burst", "burst", "waves", "trickle"],
    "outcomes": {"ret": 10, "exc": 2, "baseexc": 1, "nores": 1, "requeue": 0},
    "middlewares": (0, 1),
}


def gen(rs: int, tier: str, index: int) -> dict:
    s = gen_worker_script(rs, tier_knobs(KNOBS, tier, index))
    if index % 8 == 5 and s["config"]["workers"] == 1:
        # programmatic entry point taskiq.api.run_receiver_task: broker.listen() fails once or twice while tasks are in flight and the
        # worker re-subscribes; the bound is judged per receiver session (deliveries taken between two listen failures)
        from sim.rng import stream
        r = stream(rs, "c04api")
        n = len(s["messages"])
        s["config"]["entry"] = "api"
        s["config"]["N"] = None
        fails = sorted(r.randint(1, max(1, n - 2)) for _ in range(r.choice([1, 1, 2])))
        if r.random() < 0.4:
            # the broker ends the stream in an orderly way instead: the receiver drains what it holds, returns, and a new one subscribes -
            # no new session, the bound holds across it
            s["config"]["listen_end_after"] = fails
        else:
            s["config"]["listen_fail_after"] = fails
        for m in s["messages"]:
            if isinstance(m.get("task"), int) and s["tasks"][m["task"]].get("sync"):
                m["task"] = 0
                m.pop("pool_delay_us", None)
    from ._wcommon import maybe_cli_entry
    return maybe_cli_entry(s, index, 8, 2)


def oracle(script: dict, run: Any) -> List[Violation]:
    h = Hist(run)
    out: List[Violation] = []
    cfg = script["config"]
    A, P = cfg.get("A"), cfg.get("P", 0)
    if not A:
        return out
    bound = A + P + 1
    unfinished: Dict[Any, int] = {}
    node_of_d: Dict[Any, Any] = {}
    open_parts: Dict[Any, set] = {}      # per delivery: which parts are still running ("cb" = callback(), "fn" = the task function)
    session_now: Dict[str, int] = {}
    for e in h.events:
        d = e[4]
        if e[3] == "listen_fail":
            # run_receiver_task re-subscribes with a new receiver: a new session with its own bound starts on that worker
            wn = f"w{e[5]['w']}"
            session_now[wn] = session_now.get(wn, 0) + 1
        elif e[3] == "take":
            key = (e[2], session_now.get(e[2], 0))
            node_of_d[d] = key
            open_parts[d] = {"cb"}
            unfinished[key] = unfinished.get(key, 0) + 1
            if unfinished[key] > bound:
                out.append(Violation("C04/bound-exceeded",
                                     f"worker {e[2]} holds {unfinished[key]} taken-but-unfinished messages > A+P+1={bound} at event {e[0]} (t={e[1]}us)"
                                     + (f", all taken after listen failure #{key[1]}" if key[1] else ""),
                                     event=e[0], held=unfinished[key], bound=bound))
                break
        elif e[3] == "fn_enter" and d in open_parts and open_parts[d]:
            open_parts[d].add("fn")
        elif e[3] in ("cb_exit", "fn_exit") and d in node_of_d and open_parts.get(d):
            open_parts[d].discard("cb" if e[3] == "cb_exit" else "fn")
            if not open_parts[d]:
                unfinished[node_of_d[d]] -= 1
    # conservation on the server: enqueued == taken + still queued
    w = h.world
    if w is not None:
        taken = len(h.takes())
        if w.server.enqueued != taken + len(w.server.queue):
            out.append(Violation("C04/conservation", f"server enqueued {w.server.enqueued} != taken {taken} + queued {len(w.server.queue)}"))
    return out


def probes(script: dict, run: Any) -> Dict[str, int]:
    h = Hist(run)
    cfg = script["config"]
    A, P = cfg.get("A"), cfg.get("P", 0)
    res = {"bound_reached_exactly": 0, "backlog_left_on_server_while_saturated": 0, "multi_worker": int(cfg["workers"] > 1),
           "resubscribed_after_listen_failure_with_tasks_in_flight": 0}
    for lf in h.kind("listen_fail"):
        ent = {e[4] for e in h.kind("cb_enter") if e[0] < lf[0]}
        ext = {e[4] for e in h.kind("cb_exit") if e[0] < lf[0]}
        if ent - ext:
            res["resubscribed_after_listen_failure_with_tasks_in_flight"] = 1
    if not A:
        return res
    bound = A + P + 1
    unfinished: Dict[str, int] = {}
    node_of_d: Dict[Any, str] = {}
    queued = 0
    for e in h.events:
        if e[3] == "enqueue":
            queued += 1
        if e[3] == "take":
            queued -= 1
            node_of_d[e[4]] = e[2]
            unfinished[e[2]] = unfinished.get(e[2], 0) + 1
            if unfinished[e[2]] == bound:
                res["bound_reached_exactly"] = 1
        elif e[3] == "cb_exit" and e[4] in node_of_d:
            unfinished[node_of_d[e[4]]] -= 1
        if queued > 0 and any(v == bound for v in unfinished.values()):
            res["backlog_left_on_server_while_saturated"] = 1
    return res


def nontrivial(script: dict, run: Any) -> bool:
    return default_nontrivial(script, run)

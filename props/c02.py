"""C02 — acknowledgement happens exactly once and never before the configured point."""
from __future__ import annotations

from typing import Any, Dict, List

from sim.gen_worker import gen_worker_script, tier_knobs
from ._wcommon import (ASSUMPTIONS, COMPONENTS_REAL, COMPONENTS_STUB, Hist, Violation, default_nontrivial,  # noqa: F401
                       simplifications, simulate)

from ._wcommon import abstract_states  # noqa: F401,E402

ID = "C02"
RUNS = {"quick": 12000, "thorough": 250000}
BUDGET_S = {"quick": 60, "thorough": 900}
RULE = ("seeded scenario scripts over the three acknowledge types x sync/async ack (with latency) x outcomes {return, exception, "
        "BaseException, timeout, no-result, save failure} x concurrent messages; ~35% of runs crash a worker at a scripted event "
        "(biased to the gaps fn_exit -> save -> ack), restart it and redeliver un-acked messages; every sixth run shuts down with a "
        "wait_tasks_timeout that expires while sync/async bodies are still running; the ordering rule is evaluated "
        "on the whole history, i.e. on every prefix (= a crash after every event); sync tasks with generous timeout labels, 8% of the runs with "
        "RuntimeWarning / UserWarning as errors; non-trivial = overlap or a fault fired")

KNOBS = {
    "n_msgs": (1, 10),
    "N": [None],
    "W": [None],
    "ack_type": ["when_received", "when_executed", "when_saved", "when_saved", None],
    "ackable": [True, True, True, "mixed"],
    "p_ack_async": 0.5,
    "p_ack_delay": 0.5,
    "p_stop": 0.1,
    "p_faults": 0.7,
    "p_save_fail": 0.2,
    "p_save_delay": 0.4,
    "p_timeout": 0.2,
    "p_sync": 0.2,
    "p_deps": 0.1,
    "p_crash": 0.5,
    "p_malformed": 0.04,
    "p_unknown": 0.04,
    "middlewares": (0, 2),
    "outcomes": {"ret": 6, "exc": 3, "baseexc": 1, "nores": 2, "requeue": 0},
}


def gen(rs: int, tier: str, index: int) -> dict:
    kn = KNOBS
    if index % 6 == 4:
        # shutdown with a wait_tasks_timeout that expires while (sync, thread-pool) task functions are still running:
        # whatever the worker does with them then, it must not acknowledge before the function has finished
        kn = dict(KNOBS, W=[0.05, 0.2, 0.2, 1.0], N=[None, None, 1, 2, 3], p_stop=0.85, p_sync=0.34, p_crash=0.0, workers=[1],
                  durations={"zero": 1, "tiny": 1, "short": 2, "medium": 4, "long": 5, "poll": 2})
    if index % 6 == 1:
        # a middleware hook fails while the message is being processed (no crashes in these runs): processing is aborted, and
        # whatever the worker does then it must not acknowledge twice, nor acknowledge a when_saved message it never tried to store
        kn = dict(KNOBS, p_hook_raise=0.35, p_crash=0.0, middlewares=(1, 2), p_faults=1.0)
    from ._wcommon import maybe_cli_entry
    s = maybe_cli_entry(gen_worker_script(rs, tier_knobs(dict(kn, p_warn_error=0.08), tier, index)), index, 7, 5)
    from ._wcommon import sync_timeouts
    sync_timeouts(s, rs, "c02synctimeout")
    from sim.rng import stream
    rl = stream(rs, "c02labels")
    if rl.random() < 0.2:
        # a client-side pre_send middleware adds a label after the kicker typed the labels (no labels_types entry for it) and
        # consumes another one (a labels_types entry without a label): such messages are processed and acknowledged like any other
        s["config"]["client_label_adder"] = True
        for m in s["messages"]:
            if m.get("kind", "valid") == "valid" and rl.random() < 0.7:
                m["labels"] = {"route": ["str", rl.choice(["fast", "slow"])], "prio": ["int", str(rl.randint(0, 9))]}
                if rl.random() < 0.5:
                    m["mw_pop_label"] = rl.choice(["route", "prio"])
                if rl.random() < 0.7:
                    m["mw_labels"] = {"origin": "api"}
    return s


def oracle(script: dict, run: Any) -> List[Violation]:
    h = Hist(run)
    out: List[Violation] = []
    ack_type = script["config"].get("ack_type") or "when_saved"
    w = h.world
    for t in h.takes():
        d, k, node = t[4], t[5]["k"], t[2]
        if not t[5]["ackable"]:
            continue
        evs = h.by_d.get(d, [])
        acks = [e for e in evs if e[3] == "ack_call"]
        if len(acks) > 1:
            out.append(Violation("C02/acked-twice", f"delivery {d} (message {k}) was acknowledged {len(acks)} times", d=d))
            continue
        m = h.msg(script, k)
        kind = m.get("kind", "valid")
        wn = t[5]["w"]
        gen = 0 if "." not in node else int(node.split(".")[1])
        crashed = h.crashed(wn, gen)
        fn_enter = h.first(d, "fn_enter")
        fn_exit = h.first(d, "fn_exit")
        save_enter = h.first(d, "save_enter")
        save_exit = h.first(d, "save_exit")
        cb_exit = h.first(d, "cb_exit")
        if acks:
            a = acks[0]
            if ack_type == "when_received":
                ad = h.first(d, "ack_done")
                if fn_enter is not None and fn_enter[0] < a[0]:
                    out.append(Violation("C02/received-ack-after-start", f"when_received: delivery {d} acknowledged at event {a[0]} after its task function started at event {fn_enter[0]}"))
                elif fn_enter is not None and (ad is None or ad[0] > fn_enter[0]):
                    out.append(Violation("C02/received-ack-not-completed-before-start", f"when_received: delivery {d}: the task function started at event {fn_enter[0]} "
                                         f"while the acknowledgement begun at event {a[0]} had not completed ({'event %d' % ad[0] if ad else 'never'}); a crash in between redelivers an executed message"))
            elif ack_type == "when_executed":
                if fn_exit is None or fn_exit[0] > a[0]:
                    if not (fn_enter is None and h.first(d, "dep_fail") is not None):
                        out.append(Violation("C02/executed-ack-too-early", f"when_executed: delivery {d} acknowledged at event {a[0]} before its task function finished ({'event %d' % fn_exit[0] if fn_exit else 'never finished'})"))
            else:
                if save_enter is not None:
                    if save_exit is None or save_exit[0] > a[0]:
                        out.append(Violation("C02/saved-ack-before-store", f"when_saved: delivery {d} acknowledged at event {a[0]} before the attempt to store its result completed"))
                elif save_enter is None:
                    if fn_exit is None or fn_exit[0] > a[0]:
                        if not (fn_enter is None and h.first(d, "dep_fail") is not None):
                            out.append(Violation("C02/saved-ack-before-finish", f"when_saved: delivery {d} acknowledged at event {a[0]} before its task function finished and without a store attempt"))
        # exactly once for completed processing
        # a callback still running when listen() returned (wait_tasks_timeout elapsed) belongs to a worker that is exiting: nothing
        # keeps its task alive any more (a garbage collection destroys it), which is a crash as far as the acknowledgement goes
        lret = next((e for e in h.kind("listen_return") if e[5]["w"] == wn and e[5]["gen"] == gen), None)
        orphaned = lret is not None and cb_exit is not None and cb_exit[0] > lret[0]
        hooked = [hr[0] for hr in (m.get("hook_raise") or []) if len(hr) == 2]
        if hooked and acks and ack_type == "when_saved" and save_enter is None and hooked[0] in ("pre_execute", "on_error", "post_execute") \
                and h.first(d, "hook_failed") is not None:
            out.append(Violation("C02/saved-ack-without-store-attempt", f"when_saved: delivery {d} was acknowledged although its processing was aborted by a failing "
                                 f"{hooked[0]} hook before any attempt to store a result", d=d))
        if kind == "valid" and not crashed and not orphaned and cb_exit is not None and not acks and not hooked:
            # apart from a scripted failing hook (waived above) no fault kind used by this check makes callback() raise legitimately (no
            # failing acks or cancellations are scripted), so processing that ended - however it ended - without the acknowledgement is
            # a message that is never acknowledged
            how = cb_exit[5].get("how")
            tail = "" if how == "ok" else f"; callback() ended with {how}"
            out.append(Violation("C02/never-acked", f"delivery {d} (message {k}) completed processing on {node} but was never acknowledged (ack type {ack_type}){tail}", d=d))
    # Oracle B: consequences after real crashes and redelivery
    if w is not None and h.kind("crash") and not w.server.queue and not w.server.in_transit:
        settled = h.kind("settled")
        if settled and settled[0][5]["idle"]:
            by_k: Dict[Any, List[Any]] = {}
            for t in h.takes():
                by_k.setdefault(t[5]["k"], []).append(t)
            for k, ts in by_k.items():
                m = h.msg(script, k)
                if m.get("kind", "valid") != "valid":
                    continue
                if not all(t[5]["ackable"] for t in ts):
                    continue
                executed = any(h.first(t[4], "fn_exit") is not None for t in ts)
                if ack_type in ("when_executed", "when_saved") and not executed:
                    out.append(Violation("C02/lost-after-crash", f"message {k} was never executed to completion although un-acked deliveries are redelivered (ack type {ack_type}); deliveries {[t[4] for t in ts]}"))
                if ack_type == "when_saved":
                    for t in ts:
                        d = t[4]
                        if h.first(d, "ack_done") is None:
                            continue
                        se = h.first(d, "save_exit")
                        fe = h.first(d, "fn_enter")
                        beh_out = None
                        if fe is not None:
                            atts = m.get("attempts") or [{}]
                            beh_out = atts[min(fe[5]["attempt"], len(atts) - 1)].get("out", ["ret"])
                        if beh_out in (["nores"], ["requeue"]):
                            continue
                        if se is not None and se[5].get("ok") and f"m{k}" not in run.store:
                            out.append(Violation("C02/acked-without-result", f"when_saved: delivery {d} of message {k} is acknowledged but no result is stored"))
    return out


def probes(script: dict, run: Any) -> Dict[str, int]:
    h = Hist(run)
    ack_type = script["config"].get("ack_type") or "when_saved"
    res = {"crash_between_exit_and_ack": 0, "redelivered": int(any(e[5].get("redelivery_of") is not None for e in h.kind("enqueue"))),
           "async_ack_with_latency": int(run.fault_counts.get("ack_delay", 0) > 0),
           "ack_after_failed_save": 0, "ack_without_save_noresult": 0,
           "when_received_lost_on_crash": 0, "type_" + ack_type: 1, "returned_on_wait_tasks_timeout_with_running_function": 0}
    for lr in h.kind("listen_return"):
        for fe in h.kind("fn_enter"):
            fx = h.first(fe[4], "fn_exit")
            if fe[0] < lr[0] and (fx is None or fx[0] > lr[0]) and script["config"].get("W") is not None:
                res["returned_on_wait_tasks_timeout_with_running_function"] = 1
    for c in h.kind("crash"):
        node = h.node_of(c[5]["w"], c[5]["gen"])
        for t in h.takes():
            if t[2] != node:
                continue
            fx = h.first(t[4], "fn_exit")
            ak = h.first(t[4], "ack_call")
            if fx is not None and fx[0] < c[0] and (ak is None or ak[0] > c[0]):
                res["crash_between_exit_and_ack"] = 1
            if ack_type == "when_received" and ak is not None and ak[0] < c[0] and fx is None:
                res["when_received_lost_on_crash"] = 1
    for e in h.kind("save_exit"):
        if not e[5].get("ok") and h.first(e[4], "ack_call") is not None:
            res["ack_after_failed_save"] = 1
    for e in h.kind("ack_call"):
        if h.first(e[4], "save_enter") is None and ack_type == "when_saved":
            res["ack_without_save_noresult"] = 1
    return res


def nontrivial(script: dict, run: Any) -> bool:
    return default_nontrivial(script, run)

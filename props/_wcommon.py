"""Shared pieces of the worker-world property checks (C01..C12)."""
from __future__ import annotations

import copy
from typing import Any, Dict, Iterator, List, Optional

from sim.runner import Violation  # noqa: F401  (re-export)
from sim.worker_world import simulate as simulate  # noqa: F401

COMPONENTS_REAL = [
    "taskiq.receiver.receiver.Receiver (listen, prefetcher, runner, callback, run_task) — subclassed only to record callback enter/exit",
    "taskiq.abc.broker.AsyncBroker base (task registry, formatter, serializer, middlewares, register_task)",
    "taskiq.kicker.AsyncKicker, taskiq.decor.AsyncTaskiqDecoratedTask",
    "taskiq.formatters (ProxyFormatter, JSONFormatter), taskiq.serializers (JSONSerializer, PickleSerializer)",
    "taskiq.message.TaskiqMessage / BrokerMessage, taskiq.labels",
    "taskiq.receiver.params_parser.parse_params",
    "taskiq.context.Context (incl. requeue), taskiq.result.TaskiqResult (+ taskiq.serialization for stored errors)",
    "taskiq.middlewares.SimpleRetryMiddleware; TaskiqMiddleware base",
    "taskiq_dependencies (DependencyGraph, AsyncResolveContext)",
    "asyncio Task/Future/Semaphore/Queue/Event/wait/wait_for; anyio TaskGroup (asyncio backend)",
]
COMPONENTS_STUB = [
    "event loop scheduling core + clock: sim.loop.SimLoop (virtual time, FIFO ready queue, seeded CPU-time model)",
    "transport: SimBroker.kick/listen + broker server queue, ack table, redelivery after a crash",
    "result store: SimResultBackend (scripted latency / failure; object, JSON or pickle storage)",
    "thread pool: SimExecutor (sync task functions run inline at a scripted instant)",
    "task ids: deterministic id generator; time(): rebound to the simulated clock",
    "task bodies, dependencies and recording middlewares are generated from the scenario script",
]
ASSUMPTIONS = [
    "asyncio runs its ready queue FIFO; timers never fire early; equal deadlines fire in registration order",
    "the broker's listen() pops and yields a message without an await in between (a cancelled look-ahead never swallows one)",
    "a worker crash is kill -9: nothing of that worker runs afterwards; only the broker server state and the result store survive",
    "CPU time between two loop steps is 0, 1..300 us or (rarely) 1..50 ms; wall clock and monotonic clock do not drift apart",
    "sampling, not enumeration: a clean batch is evidence, not proof",
]


class Hist:
    """Indexed view of a run's event list: [seq, t_us, node, kind, d, extra]."""

    def __init__(self, run: Any) -> None:
        self.events: List[list] = run.events
        self.by_d: Dict[Any, List[list]] = {}
        self.by_kind: Dict[str, List[list]] = {}
        for e in self.events:
            if e[4] is not None:
                self.by_d.setdefault(e[4], []).append(e)
            self.by_kind.setdefault(e[3], []).append(e)
        self.world = run.extra.get("world")

    def of(self, d: Any, kind: str) -> List[list]:
        return [e for e in self.by_d.get(d, ()) if e[3] == kind]

    def first(self, d: Any, kind: str) -> Optional[list]:
        for e in self.by_d.get(d, ()):
            if e[3] == kind:
                return e
        return None

    def kind(self, kind: str) -> List[list]:
        return self.by_kind.get(kind, [])

    def takes(self) -> List[list]:
        return self.kind("take")

    def worker_gens(self) -> List[tuple]:
        return [(e[5]["w"], e[5]["gen"]) for e in self.kind("listen_start")]

    def node_of(self, w: int, gen: int) -> str:
        return f"w{w}" if gen == 0 else f"w{w}.{gen}"

    def crashed(self, w: int, gen: int) -> Optional[list]:
        for e in self.kind("crash"):
            if e[5]["w"] == w and e[5]["gen"] == gen:
                return e
        return None

    def msg(self, script: dict, k: Any) -> dict:
        for m in script.get("messages", []):
            if m["k"] == k:
                return m
        w = self.world
        if w is not None and k in w.probe_msgs:
            return w.probe_msgs[k]
        return {}


def overlapped(h: Hist) -> bool:
    """True iff at least two deliveries were inside callback() at the same time."""
    live = 0
    for e in h.events:
        if e[3] == "cb_enter":
            live += 1
            if live >= 2:
                return True
        elif e[3] == "cb_exit":
            live -= 1
    return False


def default_nontrivial(script: dict, run: Any) -> bool:
    if run.fault_counts:
        return True
    return overlapped(Hist(run))


def default_probes(script: dict, run: Any) -> Dict[str, int]:
    return {}


# ------------------------------------------------------------ minimiser proposals
def simplifications(script: dict) -> Iterator[dict]:
    def clone() -> dict:
        return copy.deepcopy(script)

    if script.get("cpu", {}).get("on", True):
        c = clone()
        c["cpu"] = {"on": False}
        yield c
    if script.get("probe"):
        c = clone()
        c.pop("probe")
        yield c
    cfg = script["config"]
    for key, val in (("workers", 1), ("middlewares", []), ("serializer", "json"), ("formatter", "proxy"),
                     ("store", "object"), ("W", None), ("N", None), ("P", 0), ("ack_async", False),
                     ("ackable", True), ("propagate", True), ("validate_params", True)):
        if cfg.get(key) != val:
            c = clone()
            c["config"][key] = val
            yield c
    if cfg.get("A") not in (None, 1):
        c = clone()
        c["config"]["A"] = cfg["A"] - 1
        yield c
    if cfg.get("P", 0) > 0:
        c = clone()
        c["config"]["P"] = cfg["P"] - 1
        yield c
    if cfg.get("N") and cfg["N"] > 1:
        c = clone()
        c["config"]["N"] = cfg["N"] - 1
        yield c
    for i, mw in enumerate(cfg.get("middlewares", [])):
        for h in list(mw.get("hooks", {})):
            c = clone()
            del c["config"]["middlewares"][i]["hooks"][h]
            yield c
    for i, m in enumerate(script.get("messages", [])):
        for key in ("net", "save", "ack", "timeout", "dep_us", "hook_raise", "labels", "pool_delay_us", "dep_fail", "ackable"):
            if key in m:
                c = clone()
                del c["messages"][i][key]
                yield c
        if m.get("send_at_us"):
            c = clone()
            c["messages"][i]["send_at_us"] = 0
            yield c
        atts = m.get("attempts") or []
        if len(atts) > 1 and atts[-2].get("out", ["ret"])[0] != "requeue":
            c = clone()
            c["messages"][i]["attempts"] = atts[:-1]
            yield c
        for j, a in enumerate(atts):
            if a.get("out", ["ret"]) != ["ret"]:
                c = clone()
                c["messages"][i]["attempts"][j]["out"] = ["ret"]
                yield c
            st = a.get("steps", [])
            if len(st) > 1:
                c = clone()
                c["messages"][i]["attempts"][j]["steps"] = [sum(st)]
                yield c
            if st and any(st):
                for repl in ([0], [1], [1000], [100_000], [1_000_000]):
                    if sum(st) > repl[0]:
                        c = clone()
                        c["messages"][i]["attempts"][j]["steps"] = repl
                        yield c
        if m.get("task"):
            c = clone()
            c["messages"][i]["task"] = 0
            c["messages"][i].pop("dep_us", None)
            c["messages"][i].pop("dep_fail", None)
            yield c
    used = {m.get("task", 0) for m in script.get("messages", [])}
    tasks = script.get("tasks", [])
    if len(tasks) > 1 and max(used, default=0) < len(tasks) - 1:
        c = clone()
        c["tasks"] = tasks[: max(used, default=0) + 1]
        yield c
    for ti, ts in enumerate(tasks):
        for ni, nd in enumerate(ts.get("deps", [])):
            # drop a dependency node nobody depends on
            users = [x for x in ts["deps"] if any(s == nd["id"] for s, _ in x.get("deps", []))]
            if not users:
                c = clone()
                c["tasks"][ti]["deps"] = [x for x in ts["deps"] if x["id"] != nd["id"]]
                c["tasks"][ti]["root"] = [x for x in ts.get("root", []) if x[0] != nd["id"]]
                yield c
            if nd.get("ctx"):
                c = clone()
                c["tasks"][ti]["deps"][ni]["ctx"] = False
                yield c
            if nd.get("us") and any(nd["us"]):
                c = clone()
                c["tasks"][ti]["deps"][ni]["us"] = [0, 0]
                yield c
            if nd["style"] != "plain" and nd["style"] != "gen":
                c = clone()
                c["tasks"][ti]["deps"][ni]["style"] = "gen" if nd["style"] in ("agen", "cm", "acm") else "plain"
                yield c
    for i, op in enumerate(script.get("ops", [])):
        if op.get("plus_us"):
            c = clone()
            c["ops"][i]["plus_us"] = 0
            yield c
        if op.get("at_us"):
            c = clone()
            c["ops"][i]["at_us"] = 0
            yield c


def abstract_states(script: dict, run: Any) -> set:
    """Coverage measure only (never used by an oracle): distinct abstract worker states
    (running callbacks, taken-but-not-started, shutdown phase, A, P) seen at any event."""
    cfg = script["config"]
    A, P = cfg.get("A") or 0, cfg.get("P", 0)
    live: Dict[str, int] = {}
    queued: Dict[str, int] = {}
    phase: Dict[str, int] = {}
    node_of: Dict[Any, str] = {}
    out = set()
    for e in run.events:
        kind, node = e[3], e[2]
        if kind == "take":
            node_of[e[4]] = node
            queued[node] = queued.get(node, 0) + 1
        elif kind == "cb_enter":
            queued[node] = queued.get(node, 0) - 1
            live[node] = live.get(node, 0) + 1
        elif kind == "cb_exit":
            live[node] = live.get(node, 0) - 1
        elif kind == "stop_set":
            n = f"w{e[5]['w']}" if e[5]["gen"] == 0 else f"w{e[5]['w']}.{e[5]['gen']}"
            phase[n] = 1
            node = n
        elif kind == "listen_return":
            n = f"w{e[5]['w']}" if e[5]["gen"] == 0 else f"w{e[5]['w']}.{e[5]['gen']}"
            phase[n] = 2
            node = n
        elif kind == "crash":
            n = f"w{e[5]['w']}" if e[5]["gen"] == 0 else f"w{e[5]['w']}.{e[5]['gen']}"
            phase[n] = 3
            node = n
        else:
            continue
        out.add((min(live.get(node, 0), 6), min(max(queued.get(node, 0), 0), 6), phase.get(node, 0), A, P))
    return out


def maybe_cli_entry(script: dict, index: int, mod: int, k: int) -> dict:
    """Every mod-th single-worker run starts its worker through the real `taskiq worker` child entry point
    (taskiq.cli.worker.run.start_listen): the command-line arguments -> Receiver mapping is then part of the run."""
    cfg = script["config"]
    if index % mod != k or cfg.get("workers") != 1 or cfg.get("transport") == "inmemory" or cfg.get("entry"):
        return script
    if any(op.get("op") in ("crash", "restart") for op in script.get("ops", [])):
        return script
    cfg["entry"] = "cli"
    return script


def sync_timeouts(s: dict, rs: int, name: str, p: float = 0.4) -> None:
    """A generous timeout label on sync (thread-pool) tasks: it never fires, the worker only notes that it cannot enforce it."""
    from sim.rng import stream
    r = stream(rs, name)
    for m in s["messages"]:
        ts = s["tasks"][m["task"]] if isinstance(m.get("task"), int) else {}
        if m.get("kind", "valid") == "valid" and ts.get("sync") and m.get("timeout") is None and r.random() < p:
            tot = max(sum(a.get("steps", [0])) for a in m.get("attempts", [{}])) if m.get("attempts") else 0
            m["timeout"] = (tot + int(m.get("pool_delay_us", 0)) + 30_000_000) / 1e6

"""C17 — the process manager keeps exactly one live worker per slot."""
from __future__ import annotations

import hashlib
from typing import Any, Dict, List

from sim.super_world import gen_super_script
from ._pcommon import ASSUMPTIONS, COMPONENTS_REAL, COMPONENTS_STUB, Violation, simplifications, simulate  # noqa: F401

ID = "C17"
RUNS = {"quick": 60000, "thorough": 1500000}
BUDGET_S = {"quick": 90, "thorough": 900}
CHUNK = 256
LIST_KEYS = ("events",)
RULE = ("seeded event scripts for 1..3 workers over 2..40 supervision ticks: child deaths (incl. right after start and while being "
        "reloaded), SIGHUP, SIGINT/SIGTERM and file-change callbacks placed at interception points (tick, k-th call on a fake), "
        "queue-visibility lag on/off; 40% short scripts (<= 3 events over <= 5 ticks) so that small placements are sampled densely; "
        "non-trivial = an injected event changed the process table or the queue; distinct = distinct (events, workers, lag) script "
        "whose trace differs")


def gen(rs: int, tier: str, index: int) -> dict:
    return gen_super_script(rs)


def oracle(script: dict, run: Any) -> List[Violation]:
    out: List[Violation] = []
    N = script["workers"]
    if run.end == "raised":
        out.append(Violation("C17/supervisor-crashed", f"ProcessManager.start() raised {run.exc}: no worker is supervised or replaced any more"))
        return out
    seen_sleep = False
    ended_at = None
    for e in run.events:
        if e[3] in ("return", "forced", "raise"):
            ended_at = e
    for e in run.events:
        kind = e[3]
        if kind == "sleep":
            seen_sleep = True
        if kind == "pt":
            for name, n in e[4]["live"].items():
                if n > 1:
                    out.append(Violation("C17/two-live-in-slot", f"{n} live processes named {name} at tick {e[1]} point {e[2]} ({e[4]['label']})", name=name))
                    return out
            ns = e[4]["nslots"]
            if ns is not None and (ns > N or (seen_sleep and ns != N)):
                out.append(Violation("C17/slot-count-changed", f"manager has {ns} worker slots at tick {e[1]}, configured {N}"))
                return out
    # start-up: by the time the manager begins to supervise (its first sleep), a process has been started for every slot
    first_sleep = next((e for e in run.events if e[3] == "sleep"), None)
    if first_sleep is not None:
        started = {e[4]["name"] for e in run.events if e[3] == "start" and e[0] < first_sleep[0]}
        missing = [f"worker-{i}" for i in range(N) if f"worker-{i}" not in started]
        if missing:
            out.append(Violation("C17/slot-not-started-at-startup", f"no process was started for {missing} before supervision began"))
            return out
    # old one terminated and waited for before its replacement starts
    by_name: Dict[str, List[int]] = {}
    terminated, joined = set(), set()
    for e in run.events:
        if e[3] == "terminate":
            terminated.add(e[4]["idx"])
        elif e[3] == "join":
            joined.add(e[4]["idx"])
        elif e[3] == "start":
            prev = by_name.setdefault(e[4]["name"], [])
            if prev:
                old = prev[-1]
                if old not in terminated or old not in joined:
                    out.append(Violation("C17/replacement-before-old-waited", f"{e[4]['name']}: replacement started at tick {e[1]} but the old process was "
                                         f"{'not terminated' if old not in terminated else 'not joined'}"))
                    return out
            prev.append(e[4]["idx"])
    # the manager terminates a live worker only in order to replace it: the replacement starts in the same tick
    for i, e in enumerate(run.events):
        if e[3] != "terminate" or e[4].get("state") != "terminating":
            continue
        name = next((x[4]["name"] for x in run.events if x[3] == "start" and x[4]["idx"] == e[4]["idx"]), None)
        ok = False
        for x in run.events[i + 1:]:
            if x[3] == "start" and x[4]["name"] == name:
                ok = True
                break
            if x[3] in ("return", "forced", "raise"):
                ok = True          # start() ended (shutdown / budget / scenario over)
                break
            if x[3] == "sleep":
                break
        if not ok:
            out.append(Violation("C17/terminated-but-not-replaced", f"the manager terminated live process {e[4]['idx']} ({name}) at tick {e[1]} and started no "
                                 f"replacement for its slot in that tick"))
            return out
    # every death is replaced within two ticks
    for e in run.events:
        if e[3] != "inject_die":
            continue
        t, slot = e[1], e[4]["slot"]
        deadline_tick = t + 2      # the replacement must start before sleep #(t+3) begins
        replaced = any(x[3] == "start" and x[4]["name"] == f"worker-{slot}" and x[0] > e[0] and x[1] <= deadline_tick for x in run.events)
        if replaced:
            continue
        # excused if start() ended (shutdown / budget / scenario over) before the deadline
        reached = any(x[3] == "sleep" and x[1] >= deadline_tick + 1 for x in run.events)
        if not reached:
            continue
        out.append(Violation("C17/not-replaced-within-two-ticks", f"worker-{slot} died at tick {t} (point {e[2]}) and no replacement was started before tick {deadline_tick + 1}; "
                             f"run ended: {run.end}", slot=slot))
        break
    return out


def probes(script: dict, run: Any) -> Dict[str, int]:
    res = {"death_replaced": 0, "death_at_start": 0, "reload_all": 0, "death_during_reload": 0, "two_deaths_same_tick": 0, "lag_hid_an_item": 0,
           "death_after_scan_of_slot": 0,
           "clean_exit_code_0": int(any(e[3] == "inject_die" and e[4].get("code") == 0 for e in run.events))}
    dies = [e for e in run.events if e[3] == "inject_die"]
    res["death_replaced"] = int(any(x[3] == "start" and x[1] > 0 for x in run.events) and bool(dies))
    ticks = [e[1] for e in dies]
    res["two_deaths_same_tick"] = int(len(ticks) != len(set(ticks)))
    res["reload_all"] = int(any(e[3] == "get" and e[4]["item"].get("reload_all") for e in run.events))
    for i, e in enumerate(run.events):
        if e[3] == "inject_die":
            prev = [x for x in run.events[max(0, i - 4):i] if x[3] == "start"]
            if prev and prev[-1][4]["idx"] == e[4]["idx"]:
                res["death_at_start"] = 1
            if any(x[3] == "terminate" and x[4]["idx"] == e[4]["idx"] for x in run.events[:i]):
                res["death_during_reload"] = 1
            # died after this tick's scan already looked at it
            if any(x[3] == "is_alive" and x[4]["idx"] == e[4]["idx"] and x[1] == e[1] and x[4]["res"] for x in run.events[:i]):
                res["death_after_scan_of_slot"] = 1
        if e[3] == "put" and e[4]["lag"] > 0:
            res["lag_hid_an_item"] = 1
    return res


def nontrivial(script: dict, run: Any) -> bool:
    return any(e[3] in ("inject_die", "inject_signal", "inject_file_change") for e in run.events)


def signature(run: Any) -> int:
    hs = hashlib.blake2b(digest_size=8)
    for e in run.events:
        if e[3] != "pt":
            hs.update(f"{e[1]}:{e[3]}:{e[4].get('idx', e[4].get('slot', e[4].get('sig')))}|".encode())
    return int.from_bytes(hs.digest(), "big")

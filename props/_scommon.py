"""Shared pieces of the scheduler-world property checks (C13..C16)."""
from __future__ import annotations

import copy
from typing import Any, Dict, Iterator, List, Optional

from sim.cronref import cron_matches, from_us, shifted, to_us, zones_agree
from sim.runner import Violation  # noqa: F401
from sim.sched_world import simulate as simulate  # noqa: F401

COMPONENTS_REAL = [
    "taskiq.cli.scheduler.run: run_scheduler_loop, get_all_schedules, get_schedules, get_task_delay, delayed_send, to_tz_aware",
    "taskiq.api.scheduler.run_scheduler_task",
    "taskiq.scheduler.scheduler.TaskiqScheduler.on_ready, taskiq.kicker.AsyncKicker, formatter/serializer",
    "taskiq.schedule_sources.label_based.LabelScheduleSource (subclassed only to record calls)",
    "taskiq.scheduler.scheduled_task.ScheduledTask (pydantic model), pycron.is_now, pytz",
    "asyncio Task / gather / sleep on the virtual-time loop",
]
COMPONENTS_STUB = [
    "event loop scheduling core + monotonic clock: sim.loop.SimLoop",
    "wall clock: taskiq.cli.scheduler.run.datetime rebound to SimDateTime (now(tz)/now()/utcnow() = epoch + loop time; naive now() shifted by the per-run host zone offset); the host zone itself is set per run (TZ + time.tzset(): UTC, Etc/GMT-3, Etc/GMT+7, Asia/Kathmandu, Asia/Tokyo, America/Phoenix) so that naive datetimes handled by the C library are interpreted coherently",
    "transport: RecBroker.kick (records, scripted latency / failure per schedule and occurrence)",
    "schedule sources: ScriptedSource (dynamic list, scripted listing latency / failures, removes a one-shot in post_send, optional cancelling pre_send, sync or async hooks)",
    "ids: deterministic id generator",
]
ASSUMPTIONS = [
    "wall clock and monotonic clock advance together (no drift, no steps); asyncio timers never fire early",
    "a poll (listing + evaluation) does not straddle a minute boundary: listing latency <= 0.3 s and start instants are kept <= :59.4 when latency or CPU jitter is on",
    "pytz and the system tzdata agree at the sampled instants (disagreements are skipped and counted)",
    "reference cron semantics: Vixie (dom/dow OR rule only when neither field starts with '*'; steps counted from the field minimum); grammar keeps '*' forms standalone",
    "sampling, not enumeration: a clean batch is evidence, not proof",
]

TOL_US = 250_000
MIN = 60_000_000


class SHist:
    """events: [seq, loop_us, wall_us, kind, kw]"""

    def __init__(self, run: Any) -> None:
        self.events = run.events
        self.by_kind: Dict[str, List[list]] = {}
        for e in self.events:
            self.by_kind.setdefault(e[3], []).append(e)
        self.run = run

    def kind(self, k: str) -> List[list]:
        return self.by_kind.get(k, [])


def all_specs(script: dict) -> Dict[str, dict]:
    """schedule id -> spec (+ 'source', 'label' flags)"""
    out: Dict[str, dict] = {}
    for i, src in enumerate(script["sources"]):
        if src["kind"] == "scripted":
            for s in src["schedules"]:
                out[s["id"]] = dict(s, source=i, label=False)
        else:
            for t in src["tasks"]:
                for e in t["schedule"]:
                    if "id" in e:
                        out[e["id"]] = dict(e, task=t["name"], source=i, label=True, foreign=t.get("foreign", False),
                                            task_labels=t.get("labels") or {})
    for op in script.get("ops", []):
        if op["op"] in ("add", "create"):
            out[op["sched"]["id"]] = dict(op["sched"], source=op["source"], label=False, added_at=op["at_us"], created=(op["op"] == "create"))
    return out


def polls(script: dict, h: SHist) -> List[dict]:
    """One entry per poll of the loop: wall instant of its first list_call, and per source what it returned."""
    start = script["start"]["epoch_us"]
    res: List[dict] = []
    nsrc = len(script["sources"])
    calls: Dict[int, List[list]] = {}
    for e in h.kind("list_call"):
        calls.setdefault(e[4]["source"], []).append(e)
    oks = {(e[4]["source"], e[4]["n"]): e for e in h.kind("list_ok")}
    fails = {(e[4]["source"], e[4]["n"]): e for e in h.kind("list_fail")}
    npolls = max([len(v) for v in calls.values()] + [0])
    for p in range(npolls):
        entry: Dict[str, Any] = {"n": p, "wall": None, "listed": {}, "failed": [], "t_eval": None}
        for i in range(nsrc):
            cl = calls.get(i, [])
            if p < len(cl):
                c = cl[p]
                if entry["wall"] is None or c[2] < entry["wall"]:
                    entry["wall"] = c[2]
                ok = oks.get((i, p))
                if ok is not None:
                    entry["listed"][i] = ok[4]["ids"]
                    entry["t_eval"] = max(entry["t_eval"] or 0, ok[2])
                elif (i, p) in fails:
                    entry["failed"].append(i)
                    entry["t_eval"] = max(entry["t_eval"] or 0, fails[(i, p)][2])
        res.append(entry)
    return res


def simplifications(script: dict) -> Iterator[dict]:
    def clone() -> dict:
        return copy.deepcopy(script)
    if script.get("mode") in ("sweep", "label"):
        return
    if script.get("cpu", {}).get("on", True):
        c = clone()
        c["cpu"] = {"on": False}
        yield c
    if script.get("entry") != "loop":
        c = clone()
        c["entry"] = "loop"
        yield c
    if script.get("kicks"):
        c = clone()
        c["kicks"] = {}
        yield c
        for k in list(script["kicks"]):
            c = clone()
            del c["kicks"][k]
            yield c
    if script["start"].get("tz", "UTC") != "UTC":
        c = clone()
        c["start"]["local_off_min"] = 0
        c["start"]["tz"] = "UTC"
        yield c
    if script["horizon_us"] > 2 * MIN:
        c = clone()
        c["horizon_us"] = script["horizon_us"] - MIN
        yield c
    for i, src in enumerate(script["sources"]):
        if len(script["sources"]) > 1 and not any(op.get("source", -1) >= i for op in script.get("ops", [])):
            c = clone()
            del c["sources"][i]
            yield c
        for key in ("list_delay_us", "fail_calls", "cancel", "async_hooks", "hook_us"):
            if src.get(key):
                c = clone()
                del c["sources"][i][key]
                yield c
        for j in range(len(src.get("schedules", []))):
            c = clone()
            del c["sources"][i]["schedules"][j]
            yield c
            s = src["schedules"][j]
            for key in ("labels", "args", "kwargs", "offset"):
                if s.get(key):
                    c = clone()
                    c["sources"][i]["schedules"][j][key] = {} if key in ("labels", "kwargs") else ([] if key == "args" else None)
                    yield c
            if s.get("time") and s["time"].get("repr") != "naive":
                c = clone()
                c["sources"][i]["schedules"][j]["time"]["repr"] = "naive"
                yield c
        for ti, t in enumerate(src.get("tasks", [])):
            c = clone()
            del c["sources"][i]["tasks"][ti]
            yield c
            for j in range(len(t["schedule"])):
                c = clone()
                del c["sources"][i]["tasks"][ti]["schedule"][j]
                yield c

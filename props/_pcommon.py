"""Shared pieces of the supervisor-world property checks (C17, C18)."""
from __future__ import annotations

import copy
from typing import Any, Iterator

from sim.runner import Violation  # noqa: F401
from sim.super_world import simulate as simulate  # noqa: F401

COMPONENTS_REAL = [
    "taskiq.cli.worker.process_manager: ProcessManager.__init__/prepare_workers/start, ReloadAllAction, ReloadOneAction, ShutdownAction, "
    "get_signal_handler, schedule_workers_reload, _wait_for_worker_startup",
]
COMPONENTS_STUB = [
    "multiprocessing.Process -> FakeProcess (process table: new/live/terminating/zombie/reaped, pids, is_alive() and join() reap)",
    "multiprocessing.Queue -> FakeQueue (FIFO, feeder-thread visibility lag up to the next tick)",
    "multiprocessing.Event -> FakeEvent; time.sleep -> tick clock; os.kill -> process table lookup (ProcessLookupError for a reaped pid, or a foreign process with pid reuse)",
    "signal.signal -> captured handlers, called by the simulator at interception points (as CPython does between two bytecodes)",
    "worker function and file watcher: not run; deaths, SIGHUP/SIGINT/SIGTERM and file-change callbacks are injected by the script",
]
ASSUMPTIONS = [
    "is_alive() and join() reap a dead child; os.kill on a reaped pid raises ProcessLookupError (or hits a foreign process when the pid was reused)",
    "queue items become visible to empty() no later than the next tick; order is FIFO",
    "a child exits after terminate() + join(); signals are delivered only at interception points (calls on the fakes)",
    "event scripts are sampled, not enumerated exhaustively (the property text asks for exhaustive enumeration to a depth bound; this check is seeded search and says so)",
]


def simplifications(script: dict) -> Iterator[dict]:
    def clone() -> dict:
        return copy.deepcopy(script)
    for key in ("queue_lag", "pid_reuse"):
        if script.get(key):
            c = clone()
            c[key] = False
            yield c
    if script["workers"] > 1:
        c = clone()
        c["workers"] -= 1
        c["events"] = [e for e in c["events"] if e.get("slot", 0) < c["workers"]]
        yield c
    if script["ticks"] > 2:
        c = clone()
        c["ticks"] -= 1
        yield c
    for i, e in enumerate(script["events"]):
        if e["k"] > 0:
            c = clone()
            c["events"][i]["k"] -= 1
            yield c
        if e["tick"] > 0:
            c = clone()
            c["events"][i]["tick"] -= 1
            yield c

"""C15 — the scheduler loop sends each due schedule once per occurrence, minute after minute."""
from __future__ import annotations

from typing import Any, Dict, List

from sim.cronref import c14_expect, cron_matches, from_us, shifted, zones_agree
from sim.gen_sched import gen_sched_script
from ._scommon import (ASSUMPTIONS, COMPONENTS_REAL, COMPONENTS_STUB, MIN, TOL_US, SHist, Violation, all_specs, polls,  # noqa: F401
                       simplifications, simulate)

ID = "C15"
RUNS = {"quick": 24000, "thorough": 600000}
BUDGET_S = {"quick": 90, "thorough": 900}
CHUNK = 32
LIST_KEYS = ("ops",)
RULE = ("seeded start instants (microsecond resolution, biased to :00.000000, :00.000001, :59.x, DST days, leap day, year end), "
        "horizons of 3..12 (quick) / 3..90 (thorough) simulated minutes, 1..3 sources (scripted dynamic sources and the real "
        "LabelScheduleSource), cron and one-shot schedules (T biased to minute boundaries, boundary+(0,1] s, :59.x, already past), "
        "add/remove between polls, send latency 0..2 s, failures injected into subsets of get_schedules() and kick(); both entry "
        "points; non-trivial = at least one message was sent or a fault fired; distinct = distinct event-kind sequence")

SLACK_US = 250_000


def gen(rs: int, tier: str, index: int) -> dict:
    kn = {}
    if tier == "thorough" and index % 4 == 0:
        kn["horizon_min"] = (20, 90)
    elif index % 10 == 0:
        kn["horizon_min"] = (20, 45)
    return gen_sched_script(rs, kn)


def oracle(script: dict, run: Any) -> List[Violation]:
    h = SHist(run)
    out: List[Violation] = []
    start = script["start"]["epoch_us"]
    end = start + script["horizon_us"]
    specs = all_specs(script)
    for e in h.kind("scheduler_ended"):
        out.append(Violation("C15/loop-died", f"the scheduler loop ended by itself (exception {e[4]['exc']})"))
        return out
    ps = polls(script, h)
    tol = TOL_US + 50_000 * int(run.fault_counts.get("cpu_stall", 0))       # every counted CPU stall may add up to 50 ms
    # ---------------------------------------------------------------- (a) poll instants
    minute0 = start - start % MIN
    # `taskiq scheduler --skip-first-run` waits for the next minute boundary before its first poll (documented option)
    expected = [] if script.get("entry") == "cli_skip" else [start]
    b = minute0 + MIN
    while b < end - 1_000_000:
        expected.append(b)
        b += MIN
    for i, src in enumerate(script["sources"]):
        calls = [e for e in h.kind("list_call") if e[4]["source"] == i]
        times = [e[2] for e in calls]
        ok = len(times) >= len(expected) and all(ex <= t <= ex + tol for ex, t in zip(expected, times))
        extra = [t for t in times[len(expected):] if t < end - 1_000_000]
        if not ok or extra:
            missing = [ex for k, ex in enumerate(expected) if k >= len(times) or not (ex <= times[k] <= ex + tol)]
            out.append(Violation("C15/poll-instants", f"source {i}: get_schedules() called at wall offsets {[t - start for t in times][:12]}us, "
                                 f"expected start and every minute boundary {[x - start for x in expected][:12]}us (first deviation at {missing[:1]})", source=i))
            return out
    # kicks per marker
    kicks: Dict[Any, List[list]] = {}
    for e in h.kind("kick_call"):
        kicks.setdefault(e[4]["marker"], []).append(e)
    oks = {(e[4]["marker"], e[4]["n"]) for e in h.kind("kick_ok")}
    removed = {op["id"] for op in script.get("ops", []) if op["op"] == "remove"}
    removed |= {op["sched"]["id"] for op in script.get("ops", []) if op["op"] == "create" and op.get("unschedule_after_us") is not None}
    cancelled = {c for src in script["sources"] for c in src.get("cancel", [])}
    evals_by_marker: Dict[Any, List[Any]] = {}
    for now_us, task, res, _sq in run.delay_log:
        mk = task.args[0] if task.args else None
        evals_by_marker.setdefault(mk, []).append((now_us, res, _sq))
    # ---------------------------------------------------------------- (b) cron schedules
    for pi, p in enumerate(ps):
        if p["wall"] is None or p["wall"] >= end - 2_500_000:
            continue
        lo = p["wall"]
        hi = ps[pi + 1]["wall"] if pi + 1 < len(ps) and ps[pi + 1]["wall"] is not None else end
        for si in p["failed"]:
            for sid, sp in specs.items():
                if sp["source"] != si or sp.get("cron") is None:
                    continue
                got = [e for e in kicks.get(sid, []) if lo <= e[2] < hi]
                if got:
                    out.append(Violation("C15/sent-although-listing-failed", f"cron schedule {sid} was sent in the poll period starting at {from_us(lo).isoformat()} "
                                         f"although source {si} failed to list in that poll", sid=sid))
        for si, ids in p["listed"].items():
            for sid in ids:
                sp = specs.get(sid)
                if sp is None or sp.get("cron") is None:
                    continue
                if sp.get("foreign"):
                    continue
                off = sp.get("offset")
                # the exact instant at which the loop evaluated this schedule in this poll (recorded at the get_task_delay seam)
                evals = [x for x in evals_by_marker.get(sid, []) if lo <= x[0] < hi]
                if len(evals) != 1:
                    out.append(Violation("C15/not-evaluated-once-per-poll", f"cron schedule {sid} was evaluated {len(evals)} times in the poll starting at {from_us(lo).isoformat()}", sid=sid))
                    continue
                t_eval = evals[0][0]
                now = from_us(t_eval)
                if off is not None and "zone" in off and not zones_agree(off["zone"], now):
                    continue
                if (t_eval % MIN) > MIN - tol:
                    continue   # the poll straddles a UTC minute boundary: outside the oracle (see assumptions)
                want = False if sp.get("invalid_cron") else cron_matches(sp["cron"], shifted(now, off))
                got = [e for e in kicks.get(sid, []) if lo <= e[2] < hi]
                n_want = 1 if want and sid not in cancelled else 0
                if len(got) != n_want:
                    sub = "cron-missed" if len(got) < n_want else ("cron-sent-twice" if want else "cron-sent-when-not-due")
                    out.append(Violation(f"C15/{sub}", f"cron schedule {sid} '{sp['cron']}' offset {off}: {len(got)} sends in the poll period starting at "
                                         f"{from_us(lo).isoformat()} (shifted time {shifted(now, off).isoformat()}), expected {n_want}", sid=sid))
    # ---------------------------------------------------------------- (c) one-shot schedules
    for sid, sp in specs.items():
        if sp.get("time") is None or sid in removed or sp.get("foreign"):
            continue
        T = sp["time"]["us"]
        src = sp["source"]
        # expected send instant from the polls that actually listed it
        E = None
        listing_fault = False
        for p in ps:
            if p["wall"] is None:
                continue
            if src in p["failed"]:
                listing_fault = True
                continue
            if sid not in p["listed"].get(src, []):
                continue
            nxt = [q["wall"] for q in ps if q["wall"] is not None and q["wall"] > p["wall"]]
            ex = [x for x in evals_by_marker.get(sid, []) if p["wall"] <= x[0] < (nxt[0] if nxt else end + MIN)]
            tau = ex[0][0] if ex else (p["t_eval"] if p["t_eval"] is not None else p["wall"])   # exact evaluation instant when recorded
            kind, val = c14_expect(tau, T)
            if kind == "zero":
                E = (tau, tau + SLACK_US + tol, "immediate")
                break
            if kind == "delay":
                E = (tau + val[0] * 1_000_000, tau + val[0] * 1_000_000 + SLACK_US + tol, "delayed")
                break
        ks = kicks.get(sid, [])
        good = [e for e in ks if (sid, e[4]["n"]) in oks]
        failed_sends = [e for e in ks if (sid, e[4]["n"]) not in oks]
        if sid in cancelled:
            if ks:
                out.append(Violation("C15/cancelled-sent", f"one-shot {sid} was sent although its source cancels it in pre_send"))
            continue
        really_failed = [e for e in h.kind("kick_fail") if e[4]["marker"] == sid]
        if really_failed and not good:
            # a one-shot whose send failed is still in its source (post_send never ran) and long due: the next poll that lists it
            # sends it again - a failed send costs that attempt, it does not block the schedule. Judged on event order: the first
            # successful listing *after* the last failure that still contains the schedule must be followed by a send.
            f_last = really_failed[-1]
            nxt = next((x for x in h.kind("list_ok") if x[0] > f_last[0] and x[4]["source"] == src and sid in x[4]["ids"] and x[2] < end - 2_500_000), None)
            if nxt is not None and not any(e[0] > f_last[0] for e in ks):
                out.append(Violation("C15/one-shot-not-retried-after-failed-send", f"one-shot {sid}: its send failed at {from_us(f_last[2]).isoformat()}, the poll at "
                                     f"{from_us(nxt[2]).isoformat()} listed it again (T={from_us(T).isoformat()} is past) but it was never sent again", sid=sid))
                continue
        if len(good) > 1:
            sub = ""
            if sp.get("label"):
                sub = "@label-source"
            else:
                # stale listing: the second send comes from an evaluation that (a) used a listing fetched before the first send's
                # post_send (i.e. before the source removed the one-shot) and (b) took place after that post_send. A second send
                # that comes from an evaluation made *before* the first send completed (a delayed send scheduled by an earlier
                # poll) is the de-duplication defect fixed in fc0e4ed and stays a plain violation.
                posts = [e for e in h.kind("post_send") if e[4]["id"] == sid]
                pres = [e for e in h.kind("pre_send") if e[4]["id"] == sid]
                if posts and len(pres) >= 2:
                    p1 = posts[0]
                    # an evaluation E made after the first send's post_send (event order) that still found the schedule due, using a
                    # listing of its source obtained before that post_send, followed by a further send: the stale-listing race
                    for (e_now, e_res, e_seq) in evals_by_marker.get(sid, []):
                        if e_res is None or isinstance(e_res, tuple) or e_seq <= p1[0]:
                            continue
                        oks = [x for x in h.kind("list_ok") if x[4]["source"] == src and x[0] < e_seq and sid in x[4]["ids"]]
                        later_pre = [x for x in pres[1:] if x[0] >= e_seq and x[2] - (e_now + e_res * 1_000_000) <= tol]
                        if oks and oks[-1][0] < p1[0] and later_pre:
                            sub = "@stale-listing"
                            break
            out.append(Violation("C15/one-shot-sent-twice" + sub, f"one-shot {sid} with T={from_us(T).isoformat()} was sent {len(good)} times, at "
                                 f"{[from_us(e[2]).isoformat() for e in good[:3]]}", sid=sid, t_in_minute_us=T % MIN))
            continue
        if ks:
            first = ks[0][2]
            if first < T and not (E is not None and E[2] == "immediate"):
                out.append(Violation("C15/one-shot-early", f"one-shot {sid}: first send at {from_us(first).isoformat()} before T={from_us(T).isoformat()}", sid=sid))
            elif E is not None and E[2] == "delayed" and first >= T + 1_000_000 + SLACK_US + tol and not listing_fault and not failed_sends:
                out.append(Violation("C15/one-shot-late", f"one-shot {sid}: first send at {from_us(first).isoformat()}, more than 1 s after T={from_us(T).isoformat()}", sid=sid))
            elif E is not None and E[2] == "immediate" and first > E[1] + tol and not failed_sends:
                out.append(Violation("C15/one-shot-late", f"one-shot {sid} (already past when first listed): sent at {from_us(first).isoformat()}, expected at the poll at {from_us(E[0]).isoformat()}", sid=sid))
        elif E is not None and E[1] + 2_500_000 < end:
            out.append(Violation("C15/one-shot-never-sent", f"one-shot {sid} with T={from_us(T).isoformat()} was listed in time but never sent (expected about {from_us(E[0]).isoformat()})", sid=sid))
    return out


def probes(script: dict, run: Any) -> Dict[str, int]:
    h = SHist(run)
    specs = all_specs(script)
    res = {"cron_sent": 0, "oneshot_sent": 0, "oneshot_boundary_window": 0, "oneshot_already_past": 0, "source_failed_once": int(bool(h.kind("list_fail"))),
           "send_failed_once": int(bool(h.kind("kick_fail"))), "label_source": int(any(s["kind"] == "label" for s in script["sources"])),
           "added_between_polls": int(bool(h.kind("op_add"))), "unparsable_cron_listed": int(any(sp.get("invalid_cron") for sp in specs.values())), "long_horizon": int(script["horizon_us"] > 20 * MIN),
           "start_on_boundary": int(script["start"]["epoch_us"] % MIN == 0), "entry_task": int(script.get("entry") == "task"), "entry_cli": int(script.get("entry") in ("cli", "cli_skip")),
           "skip_first_run": int(script.get("entry") == "cli_skip")}
    for e in h.kind("kick_call"):
        sp = specs.get(e[4]["marker"])
        if sp is None:
            continue
        if sp.get("cron") is not None:
            res["cron_sent"] = 1
        else:
            res["oneshot_sent"] = 1
    start = script["start"]["epoch_us"]
    for sid, sp in specs.items():
        if sp.get("time") is not None:
            T = sp["time"]["us"]
            if 0 < T % MIN <= 1_000_000 and T > start:
                res["oneshot_boundary_window"] = 1
            if T <= start:
                res["oneshot_already_past"] = 1
    return res


def nontrivial(script: dict, run: Any) -> bool:
    return bool(run.fault_counts) or any(e[3] == "kick_call" for e in run.events)


def signature(run: Any) -> int:
    import hashlib
    hs = hashlib.blake2b(digest_size=8)
    for e in run.events:
        hs.update(f"{e[3]}:{e[4].get('marker', e[4].get('source', e[4].get('id')))}|".encode())
    return int.from_bytes(hs.digest(), "big")

"""C05 — graceful shutdown drains accepted work and terminates."""
from __future__ import annotations

from typing import Any, Dict, List, Optional

from sim.gen_worker import gen_worker_script, tier_knobs
from ._wcommon import (ASSUMPTIONS, COMPONENTS_REAL, COMPONENTS_STUB, Hist, Violation, default_nontrivial,  # noqa: F401
                       simplifications, simulate)

from ._wcommon import abstract_states  # noqa: F401,E402

ID = "C05"
RUNS = {"quick": 12000, "thorough": 250000}
BUDGET_S = {"quick": 60, "thorough": 900}
RULE = ("seeded scenario scripts with a stop event at every kind of instant (absolute, or n-th take/enter/exit/enqueue + "
        "{0,1us,poll-1,poll,poll+1,random}), (A,P,N,wait_tasks_timeout) configurations, short/long/never-ending tasks, failing acks and hooks; "
        "non-trivial = overlap or a fault/stop fired; distinct = distinct interleaving signature")

POLL_US = 300_000
SLACK_US = 250_000

KNOBS = {
    "n_msgs": (1, 12),
    "N": [None, None, None, 1, 2, 3, 5],
    "W": [None, None, 0.2, 1.0, 5.0, 0],
    "workers": [1, 1, 2],
    "p_stop": 0.75,
    "p_faults": 0.4,
    "p_never": 0.06,
    "p_malformed": 0.14,
    "p_ack_fail": 0.08,
    "p_hook_raise": 0.08,
    "p_timeout": 0.05,
    "p_deps": 0.05,
    "p_sync": 0.1,
    "middlewares": (0, 1),
    "durations": {"zero": 2, "tiny": 2, "short": 3, "medium": 3, "long": 4, "poll": 2, "tie": 1},
    "p_cleanup": 0.3,
}


def gen(rs: int, tier: str, index: int) -> dict:
    s = gen_worker_script(rs, tier_knobs(KNOBS, tier, index))
    if s["config"]["workers"] == 1 and index % 5 == 3:
        # the worker is started through the real `taskiq worker` child entry point (cli/worker/run.py start_listen) and stopped by a signal
        from sim.rng import stream
        s["config"]["entry"] = "cli"
        r = stream(rs, "c05cli")
        s["config"]["stop_signal"] = r.choice(["SIGINT", "SIGTERM", "SIGHUP"])
        # up to hardkill_count + 1 signals are a graceful request (the hard kill starts with the next one)
        hk = r.choice([0, 1, 3, 3])
        s["config"]["hardkill_count"] = hk
        s["config"]["extra_signals"] = [[r.choice([0, 1, 1000, 100_000, 400_000]), r.choice(["SIGINT", "SIGTERM"])] for _ in range(r.randint(0, hk))]
    return s


def oracle(script: dict, run: Any) -> List[Violation]:
    h = Hist(run)
    out: List[Violation] = []
    cfg = script["config"]
    A, N, W = cfg.get("A"), cfg.get("N"), cfg.get("W")
    W_us = None if W is None else int(round(W * 1e6))
    end_t = h.events[-1][1] if h.events else 0
    slack = SLACK_US + 50_000 * int(run.fault_counts.get("cpu_stall", 0))   # every counted CPU stall may add up to 50 ms
    for (w, gen) in h.worker_gens():
        node = h.node_of(w, gen)
        if h.crashed(w, gen):
            continue
        takes = [e for e in h.takes() if e[2] == node]
        enters = [e for e in h.kind("cb_enter") if e[2] == node]
        exits = {e[4]: e for e in h.kind("cb_exit") if e[2] == node}
        stop = next((e for e in h.kind("stop_set") if e[5]["w"] == w and e[5]["gen"] == gen), None)
        ret = next((e for e in h.kind("listen_return") + h.kind("listen_raise") if e[5]["w"] == w and e[5]["gen"] == gen), None)
        if ret is not None and ret[3] == "listen_raise":
            out.append(Violation("C05/listen-raised", f"listen() of {node} raised {ret[5]['exc']}"))
            continue
        # the event that plays the role of the shutdown request
        n_reached = None
        if N and len(takes) >= N:
            n_reached = takes[N - 1]
        req = None
        if stop is not None and (n_reached is None or stop[0] < n_reached[0]):
            req = stop
        elif n_reached is not None:
            req = n_reached
        # (e) exactly N accepted
        if N:
            if len(enters) > N:
                out.append(Violation("C05/accepted-more-than-N", f"{node} handed {len(enters)} messages to callbacks with max_tasks_to_execute={N}"))
            if ret is not None and (stop is None or ret[0] < stop[0]) and len(enters) != N:
                out.append(Violation("C05/stopped-before-N", f"{node} returned from listen() after {len(enters)} messages without a stop request, max_tasks_to_execute={N}"))
        elif ret is not None and (stop is None or ret[0] < stop[0]):
            out.append(Violation("C05/returned-unasked", f"{node} returned from listen() without stop request or task limit"))
        if req is None:
            continue
        # (a) at most one further take after the request
        later = [e for e in takes if e[0] > req[0]]
        if len(later) > 1:
            out.append(Violation("C05/takes-after-stop", f"{node} took {len(later)} messages after shutdown was requested (event {req[0]})", n=len(later)))
        # (b)/(c) accepted deliveries finished before return
        t_req = req[1]
        if ret is not None:
            # "... to completion (including its acknowledgement)": a delivery whose processing is over by the time listen() returns
            # has had its acknowledgement completed, not merely started (a Future / lazy awaitable returned by ack() is awaited)
            for e in takes:
                d = e[4]
                x = exits.get(d)
                if x is None or x[0] > ret[0] or x[5].get("how") != "ok":
                    continue
                ac = h.first(d, "ack_call")
                ad = h.first(d, "ack_done")
                spec = (h.msg(script, e[5]["k"]).get("ack") or {})
                if ac is not None and ac[0] < ret[0] and not spec.get("fail") and not spec.get("cancel") and (ad is None or ad[0] > ret[0]):
                    out.append(Violation("C05/returned-before-ack-completed", f"{node} returned from listen() at event {ret[0]} while the acknowledgement of delivery {d} "
                                         f"(begun at event {ac[0]}) had not completed ({'event %d' % ad[0] if ad else 'never'})", d=d))
                    break
        if ret is not None:
            unfinished = [e[4] for e in takes if e[0] < ret[0] and (e[4] not in exits or exits[e[4]][0] > ret[0])]
            if unfinished:
                if W_us is None:
                    sub = "returned-with-unfinished"
                    if any(not h.of(d, "cb_enter") for d in unfinished):
                        sub = "returned-with-unstarted"
                    out.append(Violation(f"C05/{sub}", f"{node} returned from listen() at t={ret[1]}us while accepted deliveries {unfinished[:5]} were unfinished and no wait_tasks_timeout is set",
                                         unfinished=unfinished[:5]))
                elif ret[1] < t_req + W_us:
                    out.append(Violation("C05/returned-early", f"{node} returned at t={ret[1]}us with unfinished deliveries {unfinished[:5]} before wait_tasks_timeout elapsed (request at {t_req}us, W={W}s)"))
        # (d) bounded return
        accepted = [e for e in takes if ret is None or e[0] < ret[0]]
        done_times = []
        all_done: Optional[int] = 0
        for e in accepted:
            x = exits.get(e[4])
            if x is None:
                all_done = None
                break
            done_times.append(x[1])
        if all_done is not None:
            all_done = max(done_times, default=0)
        cands = []
        if all_done is not None:
            cands.append(max(t_req, all_done) + POLL_US + slack)
        if W_us is not None:
            cands.append(t_req + POLL_US + W_us + slack)
        if not cands:
            continue  # never-ending task and no timeout: listen() may legitimately never return
        deadline = min(cands)
        t_ret = ret[1] if ret is not None else None
        if t_ret is None and end_t <= deadline:
            continue  # the run ended before the deadline: undecided, not a violation
        if t_ret is None or t_ret > deadline:
            # classify: is the lateness explained by the runner waiting for a free
            # execution slot before it looks at the queue (receiver.py runner loop)?
            live = 0
            last_full_end: Optional[int] = None   # end of the last period with live >= A at/after the request
            full_now = False
            horizon = t_ret if t_ret is not None else end_t
            for e in h.events:
                if e[1] > horizon:
                    break
                if e[2] != node or e[3] not in ("cb_enter", "cb_exit"):
                    continue
                live += 1 if e[3] == "cb_enter" else -1
                if A and live >= A:
                    full_now = True
                elif full_now:
                    full_now = False
                    if e[1] >= t_req:
                        last_full_end = e[1]
            if full_now:
                last_full_end = horizon
            sub = "late-return"
            if W_us is not None and A and last_full_end is not None:
                explained = last_full_end + POLL_US + W_us + slack
                if (t_ret is not None and t_ret <= explained) or (t_ret is None and (full_now or end_t <= explained)):
                    sub = "late-return-waiting-for-slot"
            what = "did not return" if t_ret is None else f"returned at t={t_ret}us"
            out.append(Violation(f"C05/{sub}", f"{node} {what}, deadline {deadline}us (request at {t_req}us, W={W}, A={A}, "
                                 f"all slots busy until {last_full_end}us)", last_full_end=last_full_end))
    return out


def probes(script: dict, run: Any) -> Dict[str, int]:
    h = Hist(run)
    res = {"stop_while_tasks_running": 0, "take_after_stop": 0, "returned_by_timeout_with_unfinished": 0,
           "n_limit_return": 0, "never_ending_task": int(bool(h.kind("never"))), "stop_during_poll_idle": 0,
           "cli_entry_stopped_by_signal": int(script["config"].get("entry") == "cli" and bool(h.kind("signal")))}
    stops = h.kind("stop_set")
    for s in stops:
        live = 0
        for e in h.events:
            if e[0] >= s[0]:
                break
            if e[3] == "cb_enter":
                live += 1
            elif e[3] == "cb_exit":
                live -= 1
        if live > 0:
            res["stop_while_tasks_running"] = 1
        else:
            res["stop_during_poll_idle"] = 1
        if any(e[0] > s[0] and e[2] == h.node_of(s[5]["w"], s[5]["gen"]) for e in h.takes()):
            res["take_after_stop"] = 1
    exits = {e[4]: e for e in h.kind("cb_exit")}
    for r in h.kind("listen_return"):
        node = h.node_of(r[5]["w"], r[5]["gen"])
        if any(e[2] == node and e[0] < r[0] and (e[4] not in exits or exits[e[4]][0] > r[0]) for e in h.takes()):
            res["returned_by_timeout_with_unfinished"] = 1
        if script["config"].get("N") and not any(s[0] < r[0] and s[5]["w"] == r[5]["w"] for s in stops):
            res["n_limit_return"] = 1
    return res


def nontrivial(script: dict, run: Any) -> bool:
    return default_nontrivial(script, run)

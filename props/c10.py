"""C10 — middleware hooks fire in the documented order, once per message."""
from __future__ import annotations

from typing import Any, Dict, List

from sim.gen_worker import gen_worker_script, tier_knobs
from ._wcommon import (ASSUMPTIONS, COMPONENTS_REAL, COMPONENTS_STUB, Hist, Violation, default_nontrivial,  # noqa: F401
                       simplifications, simulate)

from ._wcommon import abstract_states  # noqa: F401,E402

ID = "C10"
RUNS = {"quick": 10000, "thorough": 250000}
BUDGET_S = {"quick": 60, "thorough": 900}
RULE = ("seeded middleware stacks (0..3 recording middlewares, random subset of the six hooks overridden, sync or async with "
        "suspension, message-replacing pre_send/pre_execute adding a chain label), all task outcomes, failing kick(), failing "
        "store, concurrent messages; kick() fails with one of ten exception classes incl. taskiq's own; 20% of the runs send through "
        "a shared task + default broker; checked per send and per delivery; non-trivial = overlap or a fault fired")

KNOBS = {
    "n_msgs": (1, 10),
    "N": [None],
    "W": [None],
    "p_stop": 0.05,
    "p_faults": 0.6,
    "p_kick_fail": 0.12,
    "p_save_fail": 0.15,
    "p_timeout": 0.15,
    "p_sync": 0.2,
    "p_deps": 0.05,
    "p_malformed": 0.03,
    "p_unknown": 0.03,
    "middlewares": (0, 3),
    "p_mw_replace": 0.5,
    "outcomes": {"ret": 5, "exc": 4, "baseexc": 1, "nores": 2, "requeue": 0},
}


def gen(rs: int, tier: str, index: int) -> dict:
    s = gen_worker_script(rs, tier_knobs(KNOBS, tier, index))
    from sim.rng import stream
    rb = stream(rs, "c10prebound")
    if s["config"].get("middlewares") and rb.random() < 0.2:
        s["config"]["mw_prebound"] = rb.randint(0, 3)
    r = stream(rs, "c10shared")
    if r.random() < 0.2 and s["messages"]:
        # a task declared on the shared broker (async_shared_broker.task) and sent through the default broker: the same hooks,
        # in the same order, must run around these sends
        s["late_tasks"] = [{"name": "shared0", "at_us": 0, "ctx": r.random() < 0.5, "sync": False, "deps": [], "root": []}]
        for m in s["messages"]:
            if m.get("kind", "valid") == "valid" and r.random() < 0.6:
                m["task_name"] = "shared0"
                m["via_default_broker"] = True
                m["send_at_us"] = max(m["send_at_us"], 1)
                m.pop("pool_delay_us", None)
                m.pop("dep_us", None)
                m.pop("dep_fail", None)
    return s


def mw_with(script: dict, hook: str) -> List[int]:
    return [i for i, mw in enumerate(script["config"].get("middlewares", [])) if hook in mw.get("hooks", {})]


def replaces(script: dict, i: int, hook: str) -> bool:
    return bool(script["config"]["middlewares"][i]["hooks"][hook].get("replace"))


def chain_after(script: dict, hook: str, start: str) -> List[str]:
    """chain label seen by each overriding middleware, then the final chain."""
    seen = []
    cur = start
    for i in mw_with(script, hook):
        seen.append(cur)
        if replaces(script, i, hook):
            cur = cur + str(i)
    seen.append(cur)
    return seen


def oracle(script: dict, run: Any) -> List[Violation]:
    h = Hist(run)
    out: List[Violation] = []
    hooks = h.kind("hook")
    # ---------------------------------------------------------------- client side
    for m in script["messages"]:
        k = m["k"]
        if m.get("kind", "valid") == "malformed":
            continue
        evs = [e for e in h.events if e[2] == "client" and e[3] in ("hook", "kick_call", "kick_ok", "kick_fail", "send_ok", "send_err")
               and e[5].get("k") == k]
        seq = []
        for e in evs:
            if e[3] == "hook":
                seq.append((e[5]["hook"], e[5]["mw"], e[5].get("chain") or ""))
            else:
                seq.append((e[3], None, None))
        pre = mw_with(script, "pre_send")
        post = mw_with(script, "post_send")
        chains = chain_after(script, "pre_send", "")
        want = [("pre_send", i, chains[j]) for j, i in enumerate(pre)] + [("kick_call", None, None)]
        failed = any(e[3] == "kick_fail" for e in evs)
        if failed:
            want += [("kick_fail", None, None), ("send_err", None, None)]
        else:
            want += [("kick_ok", None, None)] + [("post_send", i, chains[-1]) for i in post] + [("send_ok", None, None)]
        if seq != want:
            out.append(Violation("C10/client-hook-order", f"send of message {k}: observed {seq} expected {want}", k=k))
            continue
        kc = next(e for e in evs if e[3] == "kick_call")
        got_chain = (kc[5]["labels"].get("chain") or [None, ""])[1]
        if got_chain != chains[-1]:
            out.append(Violation("C10/broker-got-wrong-message", f"message {k}: broker received chain {got_chain!r}, pre_send chain is {chains[-1]!r}"))
        if failed:
            se = next(e for e in evs if e[3] == "send_err")
            if not se[5].get("is_send_task_error"):
                kf = next(e for e in evs if e[3] == "kick_fail")
                out.append(Violation("C10/send-error-type", f"failed send of message {k} (broker.kick raised {kf[5].get('exc')}) surfaced to the caller as {se[5]['exc']}, "
                                     f"which is not a SendTaskError"))
    # ---------------------------------------------------------------- worker side
    send_chain = chain_after(script, "pre_send", "")[-1]
    for t in h.takes():
        d, k, node = t[4], t[5]["k"], t[2]
        m = h.msg(script, k)
        if m.get("kind", "valid") != "valid":
            if any(e[4] == d for e in hooks):
                out.append(Violation("C10/hook-on-skipped-message", f"hooks ran for skipped delivery {d}"))
            continue
        wn = t[5]["w"]
        gen = 0 if "." not in node else int(node.split(".")[1])
        if h.crashed(wn, gen):
            continue
        cbx = h.first(d, "cb_exit")
        if cbx is None:
            continue
        evs = [e for e in h.by_d.get(d, []) if e[3] in ("hook", "fn_enter", "fn_exit", "save_enter", "save_exit")]
        seq = []
        for e in evs:
            if e[3] == "hook":
                seq.append((e[5]["hook"], e[5]["mw"]))
            elif e[3] == "save_exit":
                seq.append(("save_exit", e[5].get("ok")))
            else:
                seq.append((e[3], None))
        fx = h.first(d, "fn_exit")
        raised = fx is not None and fx[5]["how"] != "ret"
        sv = h.first(d, "save_exit")
        want = [("pre_execute", i) for i in mw_with(script, "pre_execute")] + [("fn_enter", None), ("fn_exit", None)]
        if raised:
            want += [("on_error", i) for i in mw_with(script, "on_error")]
        want += [("post_execute", i) for i in mw_with(script, "post_execute")]
        if h.first(d, "save_enter") is not None:
            want += [("save_enter", None), ("save_exit", sv[5].get("ok") if sv else None)]
            if sv is not None and sv[5].get("ok"):
                want += [("post_save", i) for i in mw_with(script, "post_save")]
        if seq != want:
            out.append(Violation("C10/worker-hook-order", f"delivery {d} (message {k}): observed {seq} expected {want}", d=d))
            continue
        # chain seen by pre_execute hooks
        chains = chain_after(script, "pre_execute", send_chain)
        pes = [e for e in evs if e[3] == "hook" and e[5]["hook"] == "pre_execute"]
        got = [e[5].get("chain") or "" for e in pes]
        if got != chains[:-1]:
            out.append(Violation("C10/pre-execute-chain", f"delivery {d}: pre_execute hooks saw chains {got}, expected {chains[:-1]}"))
        # later hooks and the function see the message returned by the last pre_execute
        fe = h.first(d, "fn_enter")
        if fe is not None and fe[5].get("seen") is not None:
            c = (fe[5]["seen"]["labels"].get("chain") or [None, ""])[1]
            if c != chains[-1]:
                out.append(Violation("C10/function-saw-wrong-message", f"delivery {d}: task saw chain {c!r}, expected {chains[-1]!r}"))
        for e in evs:
            if e[3] == "hook" and e[5]["hook"] in ("on_error", "post_execute", "post_save") and (e[5].get("chain") or "") != chains[-1]:
                out.append(Violation("C10/late-hook-saw-wrong-message", f"delivery {d}: {e[5]['hook']} of mw{e[5]['mw']} saw chain {e[5].get('chain')!r}, expected {chains[-1]!r}"))
                break
    return out


def probes(script: dict, run: Any) -> Dict[str, int]:
    h = Hist(run)
    mws = script["config"].get("middlewares", [])
    res = {"shared_task_sent_through_default_broker": int(bool(script.get("late_tasks"))), "stack_of_3": int(len(mws) == 3), "kick_failed": int(bool(h.kind("kick_fail"))),
           "on_error_ran": int(any(e[5]["hook"] == "on_error" for e in h.kind("hook"))),
           "post_save_skipped_after_failed_save": 0, "replacing_hook": 0, "async_hook_suspended": 0}
    for mw in mws:
        for hk, hs in mw.get("hooks", {}).items():
            if hs.get("replace"):
                res["replacing_hook"] = 1
            if hs.get("async") and hs.get("us"):
                res["async_hook_suspended"] = 1
    if mw_with(script, "post_save"):
        for e in h.kind("save_exit"):
            if not e[5].get("ok"):
                res["post_save_skipped_after_failed_save"] = 1
    return res


def nontrivial(script: dict, run: Any) -> bool:
    return default_nontrivial(script, run)

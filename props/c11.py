"""C11 — the retry middleware re-sends a failing task a bounded number of times."""
from __future__ import annotations

from typing import Any, Dict, List

from sim.gen_worker import duration, gen_worker_script, tier_knobs
from sim.rng import stream
from sim.worker_world import FRAMEWORK_LABELS
from ._wcommon import (ASSUMPTIONS, COMPONENTS_REAL, COMPONENTS_STUB, Hist, Violation, default_nontrivial,  # noqa: F401
                       simplifications, simulate)

from ._wcommon import abstract_states  # noqa: F401,E402

ID = "C11"
RUNS = {"quick": 10000, "thorough": 250000}
BUDGET_S = {"quick": 60, "thorough": 900}
RULE = ("seeded per-attempt outcome sequences (fail / succeed / no-result / timeout), max_retries 0..6 as int label, str label or "
        "middleware default, retry_on_error as bool label, 'True'/'true'/'False' str label or default, both no_result_on_retry "
        "settings, every attempt through a real dumps -> broker -> loads cycle, interleaved with other messages; reference model "
        "compared per message; 15% of the runs install the retry middleware on the running workers after warm-up failures; non-trivial = at least one re-send happened or deliveries overlapped")

KNOBS = {
    "n_msgs": (1, 7),
    "N": [None],
    "W": [None],
    "p_stop": 0.0,
    "p_faults": 0.0,
    "p_timeout": 0.0,
    "p_sync": 0.25,
    "p_deps": 0.1,
    "middlewares": (0, 2),
    "p_mw_replace": 0.0,
    "durations": {"zero": 3, "tiny": 4, "short": 4, "medium": 1, "long": 0, "poll": 0},
}
FAILS = ["ValueError", "KeyError", "SimError", "KeyboardInterrupt", "SimBaseError", "SimFalsy"]


def gen(rs: int, tier: str, index: int) -> dict:
    r = stream(rs, "c11")
    kn = dict(KNOBS)
    kn["retry"] = {"count": r.randint(0, 6), "label": r.random() < 0.5, "no_result_on_retry": r.random() < 0.5}
    s = gen_worker_script(rs, tier_knobs(kn, tier, index))
    for m in s["messages"]:
        if m.get("kind", "valid") != "valid":
            continue
        ts = s["tasks"][m["task"]]
        labels: Dict[str, Any] = {}
        c = r.randint(0, 3)
        if c == 1:
            labels["max_retries"] = ["int", str(r.randint(0, 6))]
        elif c == 2:
            labels["max_retries"] = ["str", str(r.randint(0, 6))]
        c = r.randint(0, 5)
        if c == 1:
            labels["retry_on_error"] = ["bool", True]
        elif c == 2:
            labels["retry_on_error"] = ["bool", False]
        elif c == 3:
            labels["retry_on_error"] = ["str", r.choice(["True", "true", "TRUE"])]
        elif c == 4:
            labels["retry_on_error"] = ["str", r.choice(["False", "false", "no", ""])]
        labels["u"] = ["str", f"user-{m['k']}"]
        labels["ui"] = ["int", str(m["k"] * 3)]
        m["labels"] = labels
        m["args"] = [f"arg{m['k']}", m["k"] * 11]
        atts = []
        p_fail = r.choice([0.3, 0.6, 0.9, 1.0])
        use_timeout = (not ts.get("sync")) and r.random() < 0.15
        if use_timeout:
            m["timeout"] = 0.2
        else:
            m.pop("timeout", None)
        for _ in range(8):
            x = r.random()
            if x < p_fail:
                if use_timeout and r.random() < 0.5:
                    atts.append({"steps": [500_000], "out": ["ret"]})   # will time out
                else:
                    atts.append({"steps": [duration(r, kn["durations"])], "out": ["exc", r.choice(FAILS)]})
            elif x < p_fail + 0.08 and not ts.get("sync"):
                atts.append({"steps": [duration(r, kn["durations"])], "out": ["nores"]})
            else:
                atts.append({"steps": [duration(r, kn["durations"])], "out": ["ret"]})
            if use_timeout and atts[-1]["steps"][0] < 500_000:
                atts[-1]["steps"] = [min(atts[-1]["steps"][0], 20_000)]
        m["attempts"] = atts
        m.pop("save", None)
        m.pop("net", None)
        if r.random() < 0.06:
            # the broker refuses the n-th re-send of this message (kick() raises inside the retry middleware's on_error)
            fail_at = r.randint(1, 3)
            m["net"] = [{} for _ in range(fail_at)] + [{"fail": True, "fail_exc": r.choice(["SimFault", "OSError", "BrokerError"])}, {}]
            m["resend_fails_at"] = fail_at
    valid = [m for m in s["messages"] if m.get("kind", "valid") == "valid"]
    if r.random() < 0.15 and valid:
        # the retry middleware is installed with broker.add_middlewares() on the running workers, after they have already processed
        # (and failed) messages without it: the warm-up messages are never re-sent, everything sent afterwards is
        for mw in s["config"]["middlewares"]:
            if mw.get("retry") is not None:
                mw["late"] = True
        warm = valid[: max(1, len(valid) // 3)]
        warm[0]["attempts"][0] = {"steps": [r.choice([0, 1, 5_000])], "out": ["exc", r.choice(FAILS)]}
        warm[0].pop("timeout", None)
        for m in s["messages"]:
            if any(m is x for x in warm):
                m["warmup"] = True
                m["send_at_us"] = min(m.get("send_at_us", 0), 100_000)
            else:
                m["send_at_us"] = m.get("send_at_us", 0) + 12_000_000
        s["ops"].append({"op": "add_late_mw", "at_us": 10_000_000})
    return s


def retry_cfg(script: dict) -> dict:
    for mw in script["config"]["middlewares"]:
        if mw.get("retry") is not None:
            return mw["retry"]
    return {}


def classify(att: dict, timeout: Any) -> str:
    if timeout is not None and sum(att.get("steps", [])) >= int(timeout * 1e6):
        return "fail"
    o = att.get("out", ["ret"])[0]
    return {"ret": "ok", "exc": "fail", "nores": "nores"}.get(o, "ok")


def model(script: dict, m: dict) -> List[dict]:
    """Reference model: list of expected attempts with their fate."""
    rc = retry_cfg(script)
    labels = m.get("labels") or {}
    roe = labels.get("retry_on_error")
    if m.get("warmup"):
        enabled = False           # processed before the retry middleware was installed
    elif roe is None:
        enabled = bool(rc.get("label", False))
    elif roe[0] == "bool":
        enabled = bool(roe[1])
    else:
        enabled = str(roe[1]).lower() == "true"
    mr = labels.get("max_retries")
    M = int(mr[1]) if mr is not None else int(rc.get("count", 3))
    atts = m["attempts"]
    res = []
    i = 0
    while True:
        a = atts[min(i, len(atts) - 1)]
        kind = classify(a, m.get("timeout"))
        resent = kind == "fail" and enabled and (i + 1) < M
        saved = kind != "nores" and not (resent and rc.get("no_result_on_retry", True))
        if resent and m.get("resend_fails_at") == i + 1:
            # the re-send itself fails: the exception leaves on_error and callback(); nothing is stored for this attempt, the message
            # is not acknowledged (the broker still has it), and no further attempt exists in this run
            res.append({"i": i, "kind": kind, "resent": False, "saved": False, "resend_failed": True})
            break
        res.append({"i": i, "kind": kind, "resent": resent, "saved": saved})
        if not resent:
            break
        i += 1
        if i > 20:
            break
    return res


def oracle(script: dict, run: Any) -> List[Violation]:
    h = Hist(run)
    out: List[Violation] = []
    st = h.kind("settled")
    if not st or not st[0][5]["idle"] or h.kind("crash"):
        out.append(Violation("C11/not-settled", "the run did not settle although no fault was injected"))
        return out
    enters_by_k: Dict[Any, List[list]] = {}
    for e in h.kind("fn_enter"):
        k = h.world.server.deliveries[e[4]].k
        enters_by_k.setdefault(k, []).append(e)
    for m in script["messages"]:
        if m.get("kind", "valid") != "valid":
            continue
        k = m["k"]
        exp = model(script, m)
        got = enters_by_k.get(k, [])
        rc = retry_cfg(script)
        if len(got) != len(exp):
            sub = "too-many-executions" if len(got) > len(exp) else "too-few-executions"
            out.append(Violation(f"C11/{sub}", f"message {k}: executed {len(got)} times, reference model says {len(exp)} "
                                 f"(outcomes {[x['kind'] for x in exp]}, labels {m.get('labels')}, middleware {rc})", k=k, got=len(got), want=len(exp)))
            continue
        kicks = [e for e in h.kind("kick_call") if e[5]["k"] == k]
        if exp[-1].get("resend_failed"):
            d_last = got[-1][4]
            acks = h.of(d_last, "ack_call")
            if acks and (script["config"].get("ack_type") or "when_saved") != "when_received":
                out.append(Violation("C11/acked-although-resend-failed", f"message {k}: the re-send of attempt {exp[-1]['i']} failed (the broker refused it), nothing is "
                                     f"stored, and yet delivery {d_last} was acknowledged: the task is lost", k=k))
        if len(kicks) != len(exp) + (1 if exp[-1].get("resend_failed") else 0):
            out.append(Violation("C11/wrong-number-of-sends", f"message {k}: sent {len(kicks)} times for {len(exp)} executions"))
        want_user = {n: v for n, v in (m.get("labels") or {}).items()}
        if m.get("timeout") is not None:
            want_user["timeout"] = ["float", repr(float(m["timeout"]))]
        for x, e in zip(exp, got):
            d = e[4]
            seen = e[5].get("seen")
            if e[5]["args"] != [k] + m["args"]:
                out.append(Violation("C11/arguments-changed", f"message {k} attempt {x['i']}: args {e[5]['args']} != {[k] + m['args']}"))
            if seen is not None:
                if seen["tid"] != f"m{k}":
                    out.append(Violation("C11/task-id-changed", f"message {k} attempt {x['i']}: task id {seen['tid']}"))
                user = {n: v for n, v in seen["labels"].items() if n not in FRAMEWORK_LABELS}
                if user != want_user:
                    out.append(Violation("C11/labels-changed", f"message {k} attempt {x['i']}: user labels {user} != {want_user}", k=k))
                rt = seen["labels"].get("_retries")
                want_rt = None if x["i"] == 0 else ["int", str(x["i"])]
                if rt != want_rt:
                    out.append(Violation("C11/retries-counter", f"message {k} attempt {x['i']}: _retries label {rt}, expected {want_rt}"))
            saves = h.of(d, "save_enter")
            if x["saved"] and len(saves) != 1:
                out.append(Violation("C11/result-missing", f"message {k} attempt {x['i']} ({x['kind']}, resent={x['resent']}): {len(saves)} results stored, expected 1"))
            if not x["saved"] and saves:
                out.append(Violation("C11/result-stored-for-resent-attempt", f"message {k} attempt {x['i']} ({x['kind']}, resent={x['resent']}): a result was stored although none is expected"))
            if x["saved"] and len(saves) == 1:
                s = saves[0][5]
                if (x["kind"] == "ok") != (s["is_err"] is False):
                    out.append(Violation("C11/wrong-result", f"message {k} attempt {x['i']} ({x['kind']}): stored is_err={s['is_err']}"))
        last = exp[-1]
        log = [x for x in h.world.store_log if x[0] == f"m{k}"]
        if last["saved"]:
            if not log or log[-1][1] != got[-1][4]:
                cls = "C11/final-result-not-last-attempt"
                earlier = [e[4] for e in got[:-1]]
                if log and log[-1][1] in earlier and not rc.get("no_result_on_retry", True) and any(x[1] == got[-1][4] for x in log):
                    # a re-sent attempt stored its own (error) result after the final attempt had stored its result
                    cls = "C11/stale-result-overwrites-final@no_result_on_retry=False"
                out.append(Violation(cls, f"message {k}: the stored result is the one of attempt delivery {log[-1][1] if log else None}, "
                                     f"not of the final attempt (delivery {got[-1][4]}); no_result_on_retry={rc.get('no_result_on_retry', True)}"))
        if any(x["saved"] for x in exp) != bool(log):
            out.append(Violation("C11/store-presence", f"message {k}: stored={bool(log)} expected={any(x['saved'] for x in exp)}"))
    return out


def probes(script: dict, run: Any) -> Dict[str, int]:
    res = {"resent_at_least_once": 0, "bound_reached": 0, "success_after_retries": 0, "no_result_stops_retry": 0, "disabled_not_resent": 0,
           "timeout_attempt": 0, "max_retries_str_label": 0, "max_retries_zero_or_one": 0,
           "retry_middleware_installed_after_first_failures": int(any(m.get("warmup") for m in script["messages"])),
           "resend_refused_by_broker": 0}
    for m in script["messages"]:
        if m.get("kind", "valid") == "valid" and m.get("resend_fails_at") and model(script, m)[-1].get("resend_failed"):
            res["resend_refused_by_broker"] = 1
    for m in script["messages"]:
        if m.get("kind", "valid") != "valid":
            continue
        exp = model(script, m)
        if len(exp) > 1:
            res["resent_at_least_once"] = 1
            if exp[-1]["kind"] == "ok":
                res["success_after_retries"] = 1
            if exp[-1]["kind"] == "nores":
                res["no_result_stops_retry"] = 1
        if exp[-1]["kind"] == "fail" and len(exp) >= 2:
            res["bound_reached"] = 1
        if len(exp) == 1 and exp[0]["kind"] == "fail":
            res["disabled_not_resent"] = 1
        if m.get("timeout") is not None:
            res["timeout_attempt"] = 1
        mr = (m.get("labels") or {}).get("max_retries")
        if mr is not None and mr[0] == "str":
            res["max_retries_str_label"] = 1
        if mr is not None and int(mr[1]) <= 1:
            res["max_retries_zero_or_one"] = 1
    return res


def nontrivial(script: dict, run: Any) -> bool:
    if default_nontrivial(script, run):
        return True
    return any(e[5]["n"] > 0 for e in Hist(run).kind("kick_call"))

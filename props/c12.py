"""C12 — dependencies are torn down exactly once, before the result becomes visible."""
from __future__ import annotations

from typing import Any, Dict, List

from sim.gen_worker import gen_worker_script, tier_knobs
from sim.rng import stream
from ._wcommon import (ASSUMPTIONS, COMPONENTS_REAL, COMPONENTS_STUB, Hist, Violation, default_nontrivial,  # noqa: F401
                       simplifications, simulate)

from ._wcommon import abstract_states  # noqa: F401,E402

ID = "C12"
RUNS = {"quick": 12000, "thorough": 250000}
BUDGET_S = {"quick": 60, "thorough": 900}
RULE = ("seeded dependency graphs up to depth 3 mixing generator, async generator, context manager, async context manager, plain and "
        "coroutine dependencies (70% of runs cached-only, 30% with use_cache=False edges), outcomes success / exception / timeout / "
        "no-result / failure inside a dependency, both propagate settings, 1..8 concurrent deliveries; non-trivial = overlap or fault")

TEARDOWN = ("gen", "agen", "cm", "acm")

KNOBS = {
    "n_msgs": (1, 8),
    "A": [None, 1, 2, 4],
    "N": [None],
    "W": [None],
    "workers": [1, 1, 2],
    "p_stop": 0.0,
    "p_faults": 0.5,
    "p_timeout": 0.2,
    "p_sync": 0.15,
    "p_deps": 1.0,
    "max_dep_nodes": 5,
    "p_dep_fail": 0.2,
    "p_malformed": 0.0,
    "p_unknown": 0.0,
    "p_save_fail": 0.1,
    "middlewares": (0, 1),
    "p_mw_replace": 0.0,
    "propagate": [True, False],
    "durations": {"zero": 2, "tiny": 4, "short": 4, "medium": 2, "long": 0, "poll": 0},
    "outcomes": {"ret": 6, "exc": 4, "baseexc": 1, "nores": 1, "requeue": 0},
}


def gen(rs: int, tier: str, index: int) -> dict:
    r = stream(rs, "c12")
    kn = dict(KNOBS)
    kn["uncached_deps"] = r.random() < 0.3
    s = gen_worker_script(rs, tier_knobs(kn, tier, index))
    cands = [i for i, t in enumerate(s["tasks"]) if t.get("deps")]
    for m in s["messages"]:
        if m.get("kind", "valid") == "valid" and cands and r.random() < 0.85:
            m["task"] = r.choice(cands)
            ts = s["tasks"][m["task"]]
            m.pop("pool_delay_us", None)
            du = {}
            for nd in ts["deps"]:
                if nd["style"] in ("coro", "agen", "acm") and r.random() < 0.7:
                    du[nd["id"]] = [r.choice([0, 1, 50, 500, 5000]), r.choice([0, 1, 50, 500, 5000])]
            m["dep_us"] = du
            m.pop("dep_fail", None)
            if s["config"]["faults"] and r.random() < 0.2:
                m["dep_fail"] = r.choice(ts["deps"])["id"]
            if m.get("timeout") is not None and ts.get("sync"):
                m.pop("timeout")
    if index % 5 == 4:
        # second transport: the real InMemoryBroker, whose kick() calls Receiver.callback directly and forwards the propagate switch
        s["config"]["transport"] = "inmemory"
        s["config"]["await_inplace"] = r.random() < 0.4
        s["config"]["workers"] = 1
        s["config"]["ackable"] = False
        s["config"]["middlewares"] = [mw for mw in s["config"]["middlewares"] if mw.get("retry") is None]
        s["ops"] = [op for op in s["ops"] if op.get("op") == "gc"]
        if not s["ops"] and r.random() < 0.4:
            # garbage collections while executions started by kick() wait on futures only they reference
            for m in s["messages"]:
                for a in m.get("attempts", []):
                    if r.random() < 0.6:
                        a["weak_wait"] = True
            s["ops"] = [{"op": "gc", "after": ["fn_enter", r.randint(1, max(1, len(s["messages"])))], "plus_us": r.choice([0, 1, 50, 1000])} for _ in range(r.randint(1, 2))]
        for m in s["messages"]:
            m.pop("net", None)
            m["kind"] = "valid"
            m.pop("raw_b64", None)
            m.pop("task_name", None)
            if "task" not in m:
                m["task"] = 0
                m["attempts"] = [{"steps": [0], "out": ["ret"]}]
    rt = stream(rs, "c12rawtimeout")
    for m in s["messages"]:
        # a timeout label that cannot be read as a number (async tasks): the execution fails before the function is awaited; the
        # dependencies opened for it are finalised like for any other failure, and the function must not run behind their back
        ts = s["tasks"][m["task"]] if isinstance(m.get("task"), int) else {}
        if m.get("kind", "valid") == "valid" and ts and not ts.get("sync") and m.get("timeout") is None and not m.get("dep_fail") \
                and rt.random() < 0.05:
            m["timeout_raw"] = rt.choice(["soon", "2s", "None", ""])
    from ._wcommon import maybe_cli_entry
    maybe_cli_entry(s, index, 7, 3)
    return s


def has_uncached(ts: dict) -> bool:
    return any(not c for nd in ts.get("deps", []) for _, c in nd.get("deps", [])) or any(not c for _, c in ts.get("root", []))


def oracle(script: dict, run: Any) -> List[Violation]:
    h = Hist(run)
    out: List[Violation] = []
    cfg = script["config"]
    ack_type = cfg.get("ack_type") or "when_saved"
    propagate = cfg.get("propagate", True)
    for t in h.takes():
        d, k, node = t[4], t[5]["k"], t[2]
        m = h.msg(script, k)
        if m.get("kind", "valid") != "valid" or not isinstance(m.get("task", 0), int):
            continue
        ts = script["tasks"][m.get("task", 0)]
        styles = {nd["id"]: nd["style"] for nd in ts.get("deps", [])}
        wn = t[5]["w"]
        gen = 0 if "." not in node else int(node.split(".")[1])
        if h.crashed(wn, gen) or h.first(d, "cb_exit") is None:
            continue
        evs = h.by_d.get(d, [])
        opens = [e for e in evs if e[3] == "dep_open" and styles.get(e[5]["dep"]) in TEARDOWN]
        closes = [e for e in evs if e[3] == "dep_close"]
        o_ids = [e[5]["dep"] for e in opens]
        c_ids = [e[5]["dep"] for e in closes]
        unc = has_uncached(ts)
        if sorted(o_ids) != sorted(c_ids):
            out.append(Violation("C12/not-exactly-once", f"delivery {d}: dependencies opened {o_ids} but finalised {c_ids}", d=d))
            continue
        if c_ids != list(reversed(o_ids)):
            cls = "C12/not-reverse-order"
            if unc:
                # known library behaviour: taskiq_dependencies closes sub-contexts (of use_cache=False dependencies) before the parent's
                # own dependencies. Only pairs that belong to *different* resolve contexts can be explained that way; two dependencies
                # of one context that are not finalised in reverse order are a violation even in such a graph.
                ctx_of = {e[5]["inst"]: e[5].get("rctx") for e in opens}
                o_inst = [e[5]["inst"] for e in opens]
                c_pos = {c[5]["inst"]: j for j, c in enumerate(closes)}
                same_ctx_bad = False
                for a in range(len(o_inst)):
                    for b in range(a + 1, len(o_inst)):
                        ia, ib = o_inst[a], o_inst[b]
                        if ia in c_pos and ib in c_pos and c_pos[ia] < c_pos[ib] and ctx_of[ia] == ctx_of[ib]:
                            same_ctx_bad = True
                if not same_ctx_bad:
                    cls = "C12/order@uncached-subgraph"
            out.append(Violation(cls, f"delivery {d}: dependencies opened in order {o_ids} but finalised in order {c_ids} (expected the reverse)", d=d))
        fx = h.first(d, "fn_exit")
        df = h.first(d, "dep_fail")
        after = fx if fx is not None else df
        se = h.first(d, "save_enter")
        ak = h.first(d, "ack_call")
        for c in closes:
            if after is not None and c[0] < after[0]:
                out.append(Violation("C12/closed-before-function-finished", f"delivery {d}: dependency {c[5]['dep']} finalised at event {c[0]} before the function/failing dependency finished at event {after[0]}"))
                break
            if se is not None and c[0] > se[0]:
                out.append(Violation("C12/closed-after-store", f"delivery {d}: dependency {c[5]['dep']} finalised at event {c[0]} after set_result started at event {se[0]}"))
                break
            if ak is not None and ack_type in ("when_executed", "when_saved") and c[0] > ak[0]:
                out.append(Violation("C12/closed-after-ack", f"delivery {d}: dependency {c[5]['dep']} finalised at event {c[0]} after the {ack_type} acknowledgement at event {ak[0]}"))
                break
        fe = h.first(d, "fn_enter")
        if closes and fe is not None and fe[0] > closes[0][0]:
            out.append(Violation("C12/function-started-after-teardown", f"delivery {d}: the task function was entered at event {fe[0]} after dependency "
                                 f"{closes[0][5]['dep']} had been finalised at event {closes[0][0]}", d=d))
            continue
        # exception seen by the dependency
        want = None
        if propagate:
            if m.get("timeout_raw") is not None and fx is None and df is None:
                want = "ValueError"
            elif df is not None and fx is None:
                want = "SimError"
            elif fx is not None:
                how = fx[5]["how"]
                if how == "cancelled":
                    want = "TimeoutError"
                elif how.startswith("exc:"):
                    want = how[4:]
        for c in closes:
            if c[5]["exc"] != want:
                out.append(Violation("C12/wrong-exception-propagation", f"delivery {d}: dependency {c[5]['dep']} saw {c[5]['exc']} on teardown, expected {want} (propagate={propagate})", d=d))
                break
    return out


def probes(script: dict, run: Any) -> Dict[str, int]:
    h = Hist(run)
    res = {"teardown_with_exception": 0, "teardown_after_timeout": 0, "dependency_failed_midway": int(bool(h.kind("dep_fail"))),
           "uncached_graph": int(any(has_uncached(t) for t in script["tasks"])), "propagate_off": int(not script["config"].get("propagate", True)),
           "three_or_more_teardowns": 0, "async_teardown_suspended": 0, "inmemory_broker_transport": int(script["config"].get("transport") == "inmemory")}
    per: Dict[Any, int] = {}
    for e in h.kind("dep_close"):
        per[e[4]] = per.get(e[4], 0) + 1
        if e[5]["exc"] is not None:
            res["teardown_with_exception"] = 1
        if e[5]["exc"] == "TimeoutError":
            res["teardown_after_timeout"] = 1
    if any(v >= 3 for v in per.values()):
        res["three_or_more_teardowns"] = 1
    for m in script["messages"]:
        if any(v[1] for v in (m.get("dep_us") or {}).values()):
            res["async_teardown_suspended"] = 1
    return res


def nontrivial(script: dict, run: Any) -> bool:
    return default_nontrivial(script, run) and bool(Hist(run).kind("dep_close"))

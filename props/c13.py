"""C13 — a cron schedule is due exactly in the minutes its expression matches."""
from __future__ import annotations

import hashlib
import json
from datetime import datetime, timedelta
from typing import Any, Dict, List

from sim.cronref import (UTC, ZONES, cron_matches, dst_transition_days, from_us, gen_expr, gen_offset, shifted, to_us, zones_agree)
from sim.gen_sched import gen_sched_script, gen_start
from sim.rng import stream
from sim.sched_world import SRun, call_get_task_delay, make_offset
from sim.sched_world import simulate as _simulate
from taskiq.scheduler.scheduled_task import ScheduledTask
from ._scommon import ASSUMPTIONS, COMPONENTS_REAL, COMPONENTS_STUB, Violation, simplifications  # noqa: F401

ID = "C13"
RUNS = {"quick": 6000, "thorough": 120000}
BUDGET_S = {"quick": 90, "thorough": 900}
CHUNK = 32
LIST_KEYS = ("instants",)
RULE = ("two drivers under the simulated wall clock. sweep (2/3 of runs): one seeded expression of the numeric five-field grammar x one "
        "offset (none / timedelta in +-26 h at 15-minute granularity plus odd seconds / IANA zone incl. +05:45, +05:30, +09:30, Lord Howe) "
        "evaluated minute-exhaustively over a sampled day (DST transition days of the zone, leap day, year end, random days 2015-2035) "
        "and at random instants, each minute at three different second/microsecond positions; in situ (1/3): every get_task_delay call "
        "made by the simulated scheduler loop is compared with the reference at that simulated instant. non-trivial = the expression "
        "both matched and did not match during the run; distinct = distinct (expression, offset, day) or loop scenario")


def gen(rs: int, tier: str, index: int) -> dict:
    r = stream(rs, "c13")
    if index % 3 == 2:
        s = gen_sched_script(rs, {"p_oneshot": 0.1, "horizon_min": (3, 30), "p_faults": 0.2})
        s["mode"] = "insitu"
        return s
    expr = gen_expr(r, dense=r.random() < 0.5)
    if r.random() < 0.2:
        from sim.cronref import gen_element
        f = expr.split(" ")
        f[2] = ",".join(gen_element(r, 1, 31) for _ in range(r.choice([1, 2, 3])))
        f[4] = ",".join(gen_element(r, 0, 6) for _ in range(r.choice([1, 2])))
        expr = " ".join(f)
    off = gen_offset(r)
    if r.random() < 0.12:
        # an all-day expression: minute and hour are wildcards, only the date fields select - with an offset the day boundary of the
        # shifted clock decides
        from sim.cronref import gen_element
        f = expr.split(" ")
        f[0] = f[1] = "*"
        k = r.randint(0, 2)
        if k != 1:
            f[2] = ",".join(gen_element(r, 1, 31) for _ in range(r.choice([1, 2, 3])))
        if k != 0:
            f[4] = ",".join(gen_element(r, 0, 6) for _ in range(r.choice([1, 2])))
        expr = " ".join(f)
        while off is None:
            off = gen_offset(r)
    c = r.randint(0, 4)
    if off is not None and "zone" in off and r.random() < 0.5:
        c = 0
    if c == 0 and off is not None and "zone" in off:
        days = dst_transition_days(off["zone"], r.randint(2015, 2035))
        day = r.choice(days) if days else datetime(2024, 3, 10, tzinfo=UTC)
        day = day + timedelta(hours=r.randint(-6, 6))
    elif c == 1:
        day = r.choice([datetime(2024, 2, 29, tzinfo=UTC), datetime(2023, 12, 31, 12, tzinfo=UTC), datetime(2028, 2, 28, 18, tzinfo=UTC),
                        datetime(2025, 3, 30, tzinfo=UTC), datetime(2025, 10, 26, tzinfo=UTC), datetime(2025, 11, 2, tzinfo=UTC)])
    else:
        day = from_us(gen_start(r)).replace(hour=0, minute=0, second=0, microsecond=0)
    base = to_us(day)
    instants = []
    for m in range(0, 1440 + 120):
        instants.append(base + m * 60_000_000 + r.choice([0, 0, 1, 59_999_999, r.randint(0, 59_999_999)]))
    for _ in range(200):
        instants.append(to_us(datetime(2015, 1, 1, tzinfo=UTC)) + r.randint(0, 21 * 365 * 86400) * 1_000_000 + r.randint(0, 999_999))
    return {"world": "sched", "mode": "sweep", "run_seed": rs, "expr": expr, "offset": off, "instants": instants,
            "tz": r.choice(["UTC", "UTC", "Etc/GMT-3", "Etc/GMT+7", "Asia/Kathmandu"])}


def simulate(script: dict) -> Any:
    if script["mode"] == "insitu":
        return _simulate(script)
    run = SRun()
    run.script = script
    task = ScheduledTask(task_name="t", labels={}, args=[], kwargs={}, schedule_id="s", cron=script["expr"], cron_offset=make_offset(script["offset"]))
    ev = []
    td_us = 0
    if script["offset"] and "td_s" in script["offset"]:
        td_us = script["offset"]["td_s"] * 1_000_000
    for us in script["instants"]:
        # first and last microsecond of the *shifted* minute that contains this instant
        sh = us + td_us
        minute = sh - sh % 60_000_000 - td_us
        res = []
        for pos in (us, minute, minute + 59_999_999):
            try:
                res.append(call_get_task_delay(task, pos, script.get("tz", "UTC")))
            except Exception as exc:  # noqa: BLE001
                res.append("raise:" + type(exc).__name__)
        ev.append([len(ev), 0, us, "delay", {"res": res}])
    run.events = ev
    run.end = "done"
    run.sim_us = len(ev) * 60_000_000
    return run


def off_spec(v: Any) -> Any:
    if v is None:
        return None
    if isinstance(v, timedelta):
        return {"td_s": int(v.total_seconds())} if v else None
    return {"zone": v}


def oracle(script: dict, run: Any) -> List[Violation]:
    out: List[Violation] = []
    if script["mode"] == "sweep":
        off = script["offset"]
        for e in run.events:
            us = e[2]
            now = from_us(us)
            if off is not None and "zone" in off and not zones_agree(off["zone"], now):
                continue
            want = 0 if cron_matches(script["expr"], shifted(now, off)) else None
            res = e[4]["res"]
            if res[0] != want:
                sub = "dst" if off and "zone" in off else ("offset" if off else "utc")
                out.append(Violation(f"C13/wrong-due-{sub}", f"'{script['expr']}' offset {off} at {now.isoformat()} (shifted {shifted(now, off).isoformat()}): "
                                     f"get_task_delay={res[0]!r}, reference={want!r}", us=us))
                break
            if not (res[0] == res[1] == res[2]):
                out.append(Violation("C13/depends-on-seconds", f"'{script['expr']}' offset {off}: different answers within the minute of {now.isoformat()}: {res}"))
                break
        return out
    for now_us, task, res, _sq in run.delay_log:
        if task.cron is None:
            continue
        off = off_spec(task.cron_offset)
        now = from_us(now_us)
        if off is not None and "zone" in off and not zones_agree(off["zone"], now):
            continue
        if len(task.cron.split(" ")) != 5:
            # an unparsable expression (wrong number of fields): get_task_delay reports it by raising ValueError, the loop skips it
            if res != ("raise", "ValueError"):
                out.append(Violation("C13/wrong-due-in-loop", f"loop evaluated the unparsable expression '{task.cron}': get_task_delay={res!r}, expected ValueError"))
                break
            continue
        want = 0 if cron_matches(task.cron, shifted(now, off)) else None
        if res != want:
            out.append(Violation("C13/wrong-due-in-loop", f"loop evaluated '{task.cron}' offset {off} at {now.isoformat()}: get_task_delay={res!r}, reference={want!r}"))
            break
    return out


def probes(script: dict, run: Any) -> Dict[str, int]:
    res = {"matched_some_minute": 0, "zone_offset": 0, "timedelta_offset": 0, "dst_day": 0, "insitu_calls": 0, "dom_dow_or_rule": 0}
    if script["mode"] == "sweep":
        off = script["offset"]
        res["zone_offset"] = int(bool(off and "zone" in off))
        res["timedelta_offset"] = int(bool(off and "td_s" in off))
        res["matched_some_minute"] = int(any(e[4]["res"][0] == 0 for e in run.events))
        f = script["expr"].split(" ")
        res["dom_dow_or_rule"] = int(not f[2].startswith("*") and not f[4].startswith("*"))
        if off and "zone" in off:
            a = shifted(from_us(script["instants"][0]), off).utcoffset()
            b = shifted(from_us(script["instants"][1439]), off).utcoffset()
            res["dst_day"] = int(a != b)
            if any(not zones_agree(off["zone"], from_us(u)) for u in script["instants"][::97]):
                res["zones_disagree_skipped"] = 1
    else:
        res["insitu_calls"] = int(any(t.cron is not None for _, t, _, _ in run.delay_log))
    return res


def nontrivial(script: dict, run: Any) -> bool:
    if script["mode"] == "sweep":
        got = {e[4]["res"][0] for e in run.events}
        return 0 in got and None in got
    return any(t.cron is not None and r == 0 for _, t, r, _ in run.delay_log)


def signature(run: Any) -> int:
    s = run.script
    key = [s.get("expr"), s.get("offset"), (s.get("instants") or [0])[0] // 86_400_000_000, s.get("run_seed") if s["mode"] == "insitu" else None]
    return int.from_bytes(hashlib.blake2b(json.dumps(key).encode(), digest_size=8).digest(), "big")

"""C06 — concurrent executions are isolated; results are bound to their own task id."""
from __future__ import annotations

from typing import Any, Dict, List

from sim.gen_worker import gen_worker_script, tier_knobs
from sim.worker_world import FRAMEWORK_LABELS, enc_labels
from ._wcommon import (ASSUMPTIONS, COMPONENTS_REAL, COMPONENTS_STUB, Hist, Violation, default_nontrivial,  # noqa: F401
                       simplifications, simulate)

from ._wcommon import abstract_states  # noqa: F401,E402

ID = "C06"
RUNS = {"quick": 10000, "thorough": 250000}
BUDGET_S = {"quick": 60, "thorough": 900}
RULE = ("seeded scenario scripts with 2..10 overlapping deliveries per worker; every task and every dependency (plain, coroutine, "
        "generator, async generator, context manager, async context manager; cached or use_cache=False; nested to depth 3) echoes "
        "Context.message task id / args / labels, with suspension points before late-resolved dependencies; half of the runs pass "
        "hash-equal scalars of different types (True/1/1.0) to a Union-annotated parameter, every fifth run has the retry middleware "
        "re-sending failed messages; non-trivial = two "
        "deliveries overlapped inside callback(); distinct = distinct interleaving signature")

KNOBS = {
    "n_msgs": (2, 10),
    "A": [None, 2, 3, 4, 8],
    "P": [0, 1, 2, 4],
    "N": [None],
    "W": [None],
    "workers": [1, 1, 2],
    "p_stop": 0.0,
    "p_faults": 0.3,
    "p_timeout": 0.1,
    "p_sync": 0.15,
    "p_deps": 1.0,
    "uncached_deps": True,
    "max_dep_nodes": 5,
    "p_malformed": 0.02,
    "p_unknown": 0.02,
    "p_save_delay": 0.4,
    "middlewares": (0, 1),
    "p_mw_replace": 0.0,
    "arrival": ["burst", "burst", "waves"],
    "durations": {"zero": 2, "tiny": 4, "short": 4, "medium": 2, "long": 0, "poll": 0},
    "outcomes": {"ret": 8, "exc": 2, "baseexc": 0, "nores": 1, "requeue": 2},
}


def gen(rs: int, tier: str, index: int) -> dict:
    kn = KNOBS
    if index % 5 == 1:
        # the retry middleware re-sends failing messages: a re-sent message is still "its own message" (same id, same user labels)
        kn = dict(KNOBS, retry={"count": 3, "label": True, "no_result_on_retry": True},
                  outcomes={"ret": 5, "exc": 5, "baseexc": 0, "nores": 1, "requeue": 1})
    s = gen_worker_script(rs, tier_knobs(kn, tier, index))
    from sim.rng import stream
    if stream(rs, "c06rekey").random() < 0.15:
        # a worker-side pre_execute middleware rewrites the task id: execution, Context and stored result follow the executed message's id
        s["config"]["rekey"] = True
    r = stream(rs, "c06")
    # broker.dependency_overrides: replace a dependency by one that brings its own (possibly un-cached, Context-using) sub-dependencies
    for t in s["tasks"]:
        if t.get("deps") and r.random() < 0.4:
            nodes = t["deps"]
            oi = r.randrange(len(nodes))
            earlier = nodes[:oi]
            n0 = len(nodes)
            leaf = {"id": f"r{n0}c", "style": r.choice(["plain", "coro", "gen", "agen"]), "deps": [], "ctx": True, "us": [r.choice([0, 1, 50, 500]), 0]}
            subs = [[leaf["id"], r.random() < 0.4]]
            for e in earlier:
                if r.random() < 0.4:
                    subs.append([e["id"], r.random() < 0.6])
            repl = {"id": f"r{n0}", "style": r.choice(["plain", "coro", "gen", "agen", "cm", "acm"]), "deps": subs, "ctx": r.random() < 0.5,
                    "us": [r.choice([0, 1, 50, 500, 5000]), 0]}
            t["deps"] = nodes + [leaf, repl]
            t["overrides"] = [[nodes[oi]["id"], repl["id"]]]
    # half of the runs: every task has a parameter annotated Union[bool, int, float, str, None] and the messages carry scalars
    # that compare (and hash) equal across messages but differ in type: True / 1 / 1.0, False / 0 / 0.0
    typed_scalars = r.random() < 0.5
    state_task = None
    if typed_scalars:
        for t in s["tasks"]:
            t["uparam"] = True
        if r.random() < 0.5:
            # a task whose only dependency comes straight from the broker-wide dependency context (TaskiqState), no Context
            state_task = len(s["tasks"]) - 1
            s["tasks"].insert(state_task, {"name": "tstate", "ctx": False, "sync": False, "deps": [], "root": [], "state_dep": True, "uparam": True})
    for m in s["messages"]:
        if m.get("kind", "valid") == "valid":
            if typed_scalars and r.random() < 0.75:          # (some messages leave the optional parameter out)
                m["kwargs"] = {"u": r.choice([True, 1, 1.0, False, 0, 0.0, True, 1, 1.0, "1", 2, 2.0])}
            m["labels"] = {"own": ["str", f"L{m['k']}"], "n": ["int", str(m["k"] * 7)]}
            if r.random() < 0.35:
                m["labels"] = {}          # a message that carries no labels at all
            elif r.random() < 0.4:
                m["labels"][f"only{m['k']}"] = ["str", f"x{m['k']}"]     # a label key no other message has
            m["args"] = [f"a{m['k']}"]
            # prefer tasks with dependencies
            cands = [i for i, t in enumerate(s["tasks"]) if t.get("deps")]
            if state_task is not None and r.random() < 0.5:
                m["task"] = state_task
                for a in m.get("attempts", []):
                    if a.get("out", ["ret"])[0] in ("requeue", "reject"):
                        a["out"] = ["ret"]
                m.pop("pool_delay_us", None)
                m.pop("dep_us", None)
                m.pop("dep_fail", None)
            elif cands and r.random() < 0.8:
                m["task"] = r.choice(cands)
                ts = s["tasks"][m["task"]]
                du = {}
                for nd in ts["deps"]:
                    if nd["style"] in ("coro", "agen", "acm") and r.random() < 0.8:
                        du[nd["id"]] = [r.choice([0, 1, 50, 500, 5000]), r.choice([0, 1, 50, 500])]
                m["dep_us"] = du
                m.pop("pool_delay_us", None)
                m.pop("timeout", None) if r.random() < 0.7 else None
    return s


def typed(kw: dict) -> str:
    """Type-sensitive rendering: True, 1 and 1.0 compare equal in Python but are different arguments."""
    import json
    return json.dumps(kw, sort_keys=True, default=repr)


def walk(val: Any, acc: List[Any]) -> None:
    if isinstance(val, dict) and "dep" in val:
        acc.append((val["dep"], val.get("seen")))
        for sub in (val.get("subs") or {}).values():
            walk(sub, acc)


def oracle(script: dict, run: Any) -> List[Violation]:
    h = Hist(run)
    out: List[Violation] = []
    for t in h.takes():
        d, k = t[4], t[5]["k"]
        m = h.msg(script, k)
        if m.get("kind", "valid") != "valid":
            continue
        tid = f"m{k}" + ("r" if script["config"].get("rekey") else "")
        want_args = [k] + list(m.get("args", []))
        want_own = (m.get("labels") or {}).get("own")
        # the labels this very delivery carried on the wire (decoded from its own bytes)
        try:
            tm = h.world.extra["client"].formatter.loads(h.world.server.deliveries[d].raw)
            tm.parse_labels()
            want_labels = {n: v for n, v in enc_labels(tm.labels).items() if n != "chain"}
        except Exception:  # noqa: BLE001
            want_labels = None

        ts0 = script["tasks"][m.get("task", 0)] if isinstance(m.get("task", 0), int) else {}
        own_user = dict(ts0.get("labels") or {})
        own_user.update(m.get("labels") or {})
        if m.get("timeout") is not None:
            own_user["timeout"] = ["float", repr(float(m["timeout"]))]

        def check(where: str, seen: Any) -> None:
            if seen is None:
                return
            if seen["tid"] == tid and {n: v for n, v in seen["labels"].items() if n not in FRAMEWORK_LABELS} != own_user:
                out.append(Violation("C06/foreign-labels", f"delivery {d} (task id {tid}): {where} observed user labels "
                                     f"{ {n: v for n, v in seen['labels'].items() if n not in FRAMEWORK_LABELS} }, the message with this id was sent with {own_user}", d=d))
                return
            if seen["tid"] != tid:
                uncached = "@uncached" if "uncached" in where else ""
                out.append(Violation(f"C06/foreign-context{uncached}", f"delivery {d} (task id {tid}): {where} observed the Context of task id {seen['tid']}",
                                     d=d, where=where))
            elif seen["args"] != want_args or seen["labels"].get("own") != want_own:
                out.append(Violation("C06/foreign-message-data", f"delivery {d}: {where} observed args {seen['args']} labels {seen['labels']} (own: {want_args}, {want_own})"))
            elif want_labels is not None and {n: v for n, v in seen["labels"].items() if n != "chain"} != want_labels:
                out.append(Violation("C06/foreign-labels", f"delivery {d} (task id {tid}): {where} observed labels {seen['labels']}, its own message carries {want_labels}", d=d))

        ts = script["tasks"][m.get("task", 0)] if isinstance(m.get("task", 0), int) else {}
        uncached_nodes = set()
        edges = [(s, c) for nd in ts.get("deps", []) for s, c in nd.get("deps", [])] + [(s, c) for s, c in ts.get("root", [])]
        for s, c in edges:
            if not c:
                uncached_nodes.add(s)
        # closure: everything below an un-cached edge is resolved in a sub-context
        changed = True
        nodes = {nd["id"]: nd for nd in ts.get("deps", [])}
        below = set(uncached_nodes)
        while changed:
            changed = False
            for nid in list(below):
                for s, _ in nodes.get(nid, {}).get("deps", []):
                    if s not in below:
                        below.add(s)
                        changed = True
        for e in h.of(d, "dep_open"):
            tag = "uncached " if e[5]["dep"] in below else ""
            check(f"{tag}dependency {e[5]['dep']}", e[5].get("seen"))
        for e in h.of(d, "fn_enter"):
            check("task function", e[5].get("seen"))
            if e[5]["args"] != want_args:
                out.append(Violation("C06/foreign-arguments", f"delivery {d}: function received args {e[5]['args']}, own message has {want_args}"))
            want_kw = dict(m.get("kwargs") or {})
            if typed(e[5].get("kwargs") or {}) != typed(want_kw):
                out.append(Violation("C06/foreign-arguments", f"delivery {d}: function received keyword arguments {typed(e[5].get('kwargs') or {})}, "
                                     f"its own message carries {typed(want_kw)} (a value of another message's type)"))
            acc: List[Any] = []
            for v in (e[5].get("deps") or {}).values():
                walk(v, acc)
            for dep, seen in acc:
                tag = "uncached " if dep in below else ""
                check(f"{tag}dependency value {dep} handed to the function", seen)
        for e in h.of(d, "save_enter"):
            if e[5]["task_id"] != tid:
                out.append(Violation("C06/result-under-foreign-id", f"delivery {d} (task id {tid}) stored its result under {e[5]['task_id']}"))
            if e[5]["is_err"] is False and not str(e[5]["value"]).endswith(f"-d{d}"):
                out.append(Violation("C06/foreign-result", f"delivery {d}: stored value {e[5]['value']!r} was produced by another delivery"))
    return out


def probes(script: dict, run: Any) -> Dict[str, int]:
    h = Hist(run)
    res = {"overlap_inside_dependency_resolution": 0, "uncached_dependency_resolved": 0, "max_overlap": 0, "label_less_message": int(any(m.get("kind", "valid") == "valid" and not m.get("labels") for m in script["messages"])),
           "requeued": int(run.fault_counts.get("requeue", 0) > 0),
           "equal_scalars_of_different_type_across_messages": int(len({(type(m["kwargs"]["u"]).__name__) for m in script["messages"] if (m.get("kwargs") or {}).get("u") in (0, 1)}) >= 2),
           "dependency_override_resolved": int(any(e[5]["dep"].startswith("r") for e in h.kind("dep_open")))}
    live = set()
    resolving = set()
    for e in h.events:
        if e[3] == "cb_enter":
            live.add(e[4])
            resolving.add(e[4])
            res["max_overlap"] = max(res["max_overlap"], len(live))
        elif e[3] == "fn_enter":
            resolving.discard(e[4])
        elif e[3] == "cb_exit":
            live.discard(e[4])
            resolving.discard(e[4])
        if len(resolving) >= 2:
            res["overlap_inside_dependency_resolution"] = 1
    res["max_overlap"] = int(res["max_overlap"] >= 3)
    for ts in script["tasks"]:
        for nd in ts.get("deps", []):
            if any(not c for _, c in nd.get("deps", [])):
                res["uncached_dependency_resolved"] = 1
        if any(not c for _, c in ts.get("root", [])):
            res["uncached_dependency_resolved"] = 1
    return res


def nontrivial(script: dict, run: Any) -> bool:
    from ._wcommon import overlapped
    return overlapped(Hist(run))

"""C07 — the stored result faithfully reflects the outcome of the execution."""
from __future__ import annotations

from typing import Any, Dict, List

from sim.gen_worker import gen_worker_script, tier_knobs
from sim.worker_world import FRAMEWORK_LABELS, enc_labels, summarize_value
from ._wcommon import (ASSUMPTIONS, COMPONENTS_REAL, COMPONENTS_STUB, Hist, Violation, default_nontrivial,  # noqa: F401
                       simplifications, simulate)

from ._wcommon import abstract_states  # noqa: F401,E402

ID = "C07"
RUNS = {"quick": 12000, "thorough": 250000}
BUDGET_S = {"quick": 60, "thorough": 900}
RULE = ("seeded scenario scripts: return values / Exception and BaseException classes / no-result, sync and async tasks, durations "
        "at +-1us around the timeout label (bodies may raise TimeoutError themselves), labels and the timeout attached untyped by a "
        "client pre_send middleware in 30% of the runs, result-backend failures and latency on any subset of saves, object/JSON/pickle stores; "
        "non-trivial = overlap or a fault fired; distinct = distinct interleaving signature")

KNOBS = {
    "n_msgs": (1, 10),
    "N": [None],
    "W": [None],
    "p_stop": 0.05,
    "p_faults": 0.6,
    "p_save_fail": 0.25,
    "p_save_delay": 0.3,
    "p_timeout": 0.35,
    "p_sync": 0.25,
    "p_deps": 0.1,
    "p_malformed": 0.03,
    "p_unknown": 0.03,
    "middlewares": (0, 1),
    "p_mw_replace": 0.0,
    "outcomes": {"ret": 5, "exc": 4, "baseexc": 3, "nores": 2, "requeue": 0, "reject": 1},
    "p_zero_timeout": 0.12,
    "p_warn_error": 0.05,
    "label_msgs": True,
}
MARGIN_PER_STEP_US = 60_000


def gen(rs: int, tier: str, index: int) -> dict:
    s = gen_worker_script(rs, tier_knobs(KNOBS, tier, index))
    # give some messages typed labels so that "the result carries the message's labels" is not vacuous
    from sim.rng import stream
    r = stream(rs, "c07labels")
    for m in s["messages"]:
        if m.get("kind", "valid") == "valid" and r.random() < 0.5:
            m["labels"] = {"li": ["int", str(r.randint(-5, 10**6))], "ls": ["str", r.choice(["", "x", "héllo", "a b"])],
                           "lb": ["bool", r.random() < 0.5], "lf": ["float", repr(r.choice([0.5, -1.25, 1e10]))]}
    if r.random() < 0.3:
        # a client-side pre_send middleware attaches labels (an origin tag, the timeout) after the kicker typed the labels:
        # they travel without a labels_types entry and must still reach the task, the timeout logic and the stored result
        s["config"]["client_label_adder"] = True
        for m in s["messages"]:
            if m.get("kind", "valid") != "valid":
                continue
            if r.random() < 0.6:
                m["mw_labels"] = {"origin": r.choice(["api", "", "cron"]), "trace": str(r.randint(0, 10**6))}
            if m.get("timeout") is not None and r.random() < 0.6:
                m["timeout_untyped"] = True
            if m.get("labels") and r.random() < 0.3:
                m["mw_pop_label"] = r.choice(sorted(m["labels"]))
    for m in s["messages"]:
        # a timeout label that cannot be read as a number (async tasks only): the execution fails with that ValueError, the error is
        # stored like any other and the message completes processing
        ts = s["tasks"][m["task"]] if isinstance(m.get("task"), int) else {}
        if m.get("kind", "valid") == "valid" and not ts.get("sync") and m.get("timeout") is None and r.random() < 0.04:
            m["timeout_raw"] = r.choice(["soon", "None", "1s", ""])
    if r.random() < 0.1 and s["messages"]:
        # the task name of template 0 is registered again half-way with a function of the other kind (sync <-> async)
        times = sorted(m["send_at_us"] for m in s["messages"])
        rt = 1 if len(s["tasks"]) > 1 and s["tasks"][1].get("sync") and r.random() < 0.6 else 0      # sync -> async or async -> sync
        s["ops"].append({"op": "reregister", "task": rt, "at_us": times[len(times) // 2]})
        s["tasks"][rt]["ctx"] = False
        for m in s["messages"]:
            if m.get("task") == rt:
                m.pop("timeout", None)
                m.pop("timeout_raw", None)
                for a in m.get("attempts", []):
                    if a.get("out", ["ret"])[0] in ("requeue", "reject"):
                        a["out"] = ["ret"]
    if s["config"].get("store", "object") == "object":
        # the function RETURNS an exception object (sync and async tasks): a return value like any other, stored with is_err false
        rx = stream(rs, "c07excval")
        for m in s["messages"]:
            for a in m.get("attempts", []):
                if a.get("out", ["ret"]) == ["ret"] and rx.random() < 0.1:
                    a["out"] = ["ret", "excval"]
    return s


def ts_sync(script: dict, m: dict) -> bool:
    t = m.get("task", 0)
    return bool(isinstance(t, int) and script["tasks"][t].get("sync"))


def user_labels(enc: dict) -> dict:
    return {k: v for k, v in enc.items() if k not in FRAMEWORK_LABELS}


def oracle(script: dict, run: Any) -> List[Violation]:
    h = Hist(run)
    out: List[Violation] = []
    w = h.world
    # CPU stalls (1..50 ms each, counted by the loop) can delay the instant at which a timeout is noticed
    stall_margin = 50_000 * int(run.fault_counts.get("cpu_stall", 0))
    for t in h.takes():
        d, k, node = t[4], t[5]["k"], t[2]
        m = h.msg(script, k)
        if m.get("kind", "valid") != "valid":
            if h.of(d, "save_enter"):
                out.append(Violation("C07/result-for-skipped-message", f"a result was stored for skipped delivery {d}"))
            continue
        wn = t[5]["w"]
        gen = 0 if "." not in node else int(node.split(".")[1])
        if h.crashed(wn, gen):
            continue
        cbx = h.first(d, "cb_exit")
        fe = h.first(d, "fn_enter")
        if cbx is not None and fe is None and m.get("timeout") is not None and float(m["timeout"]) == 0 and not h.of(d, "dep_fail"):
            # zero timeout label: the body is cancelled before its first step; the stored result must be the timeout error
            sv = h.of(d, "save_enter")
            if len(sv) != 1 or not (sv[0][5]["is_err"] and sv[0][5]["err"] == "TimeoutError"):
                out.append(Violation("C07/timeout-not-reported", f"delivery {d}: zero timeout label, the body never ran, but {len(sv)} results stored"
                                     + (f" (is_err={sv[0][5]['is_err']} err={sv[0][5]['err']})" if sv else "")))
            continue
        if cbx is not None and m.get("timeout_raw") is not None and not h.of(d, "dep_fail") and not ts_sync(script, m):
            sv = h.of(d, "save_enter")
            if fe is not None:
                out.append(Violation("C07/wrong-error", f"delivery {d}: the timeout label {m['timeout_raw']!r} is not a number, yet the task function was started"))
            elif len(sv) != 1 or not (sv[0][5]["is_err"] and sv[0][5]["err"] == "ValueError") or cbx[5].get("how") != "ok":
                out.append(Violation("C07/wrong-number-of-results", f"delivery {d}: unreadable timeout label {m['timeout_raw']!r}: expected one stored ValueError result and "
                                     f"completed processing, got {len(sv)} results" + (f" (is_err={sv[0][5]['is_err']} err={sv[0][5]['err']})" if sv else "")
                                     + f", callback() ended with {cbx[5].get('how')}"))
            continue
        if cbx is None or fe is None:
            continue
        saves = h.of(d, "save_enter")
        atts = m.get("attempts") or [{}]
        beh = atts[min(fe[5]["attempt"], len(atts) - 1)]
        outc = beh.get("out", ["ret"])
        steps = beh.get("steps", [])
        total = sum(steps)
        tmo = m.get("timeout")
        ts = script["tasks"][m.get("task", 0)] if isinstance(m.get("task", 0), int) else {}
        expect: List[str] = []   # acceptable outcome kinds
        if tmo is not None and not ts.get("sync"):
            tmo_us = int(round(tmo * 1e6))
            if tmo_us <= total:
                expect = ["timeout"]
            elif tmo_us > total + MARGIN_PER_STEP_US * (len(steps) + 1) + stall_margin:
                expect = ["scripted"]
            else:
                expect = ["timeout", "scripted"]
        else:
            expect = ["scripted"]
        fx = h.first(d, "fn_exit")
        # what actually happened in the body
        timed_out = fx is not None and fx[5].get("how") == "cancelled"
        if timed_out and "timeout" not in expect:
            out.append(Violation("C07/spurious-timeout", f"delivery {d}: body cancelled although timeout {tmo}s > duration {total}us"))
            continue
        if not timed_out and expect == ["timeout"]:
            out.append(Violation("C07/timeout-not-enforced", f"delivery {d}: async task ran {total}us to completion although its timeout label is {tmo}s", d=d))
            continue
        if timed_out:
            tmo_us = int(round(tmo * 1e6))
            fc = h.first(d, "fn_cancelled") or fx        # the instant the cancellation reached the body (its cleanup may take longer)
            if not (fe[1] + tmo_us <= fc[1] <= fe[1] + tmo_us + MARGIN_PER_STEP_US + stall_margin):
                out.append(Violation("C07/timeout-wrong-instant", f"delivery {d}: body cancelled at t={fc[1]}us, entered at {fe[1]}us, timeout {tmo}s"))
        nores = (not timed_out) and outc[0] in ("nores", "requeue")
        if nores:
            if saves:
                out.append(Violation("C07/result-stored-for-no-result", f"delivery {d}: outcome is the no-result signal but set_result was called {len(saves)} times"))
            continue
        if len(saves) != 1:
            out.append(Violation("C07/wrong-number-of-results", f"delivery {d} (message {k}): set_result called {len(saves)} times, expected 1", d=d, n=len(saves)))
            continue
        s = saves[0][5]
        if s["task_id"] != f"m{k}":
            out.append(Violation("C07/wrong-task-id", f"delivery {d} of message {k}: result stored under {s['task_id']}"))
        if timed_out:
            if not (s["is_err"] and s["err"] == "TimeoutError"):
                out.append(Violation("C07/timeout-not-reported", f"delivery {d}: timed out but stored is_err={s['is_err']} err={s['err']}"))
        elif outc[0] == "reject":
            # Context.reject() raises TaskRejectedError: an ordinary failed execution, its error is stored
            if not (s["is_err"] is True and s["err"] == "TaskRejectedError"):
                out.append(Violation("C07/wrong-error", f"delivery {d}: the task called Context.reject() (TaskRejectedError) but stored is_err={s['is_err']} err={s['err']}"))
        elif outc[0] == "exc":
            if not (s["is_err"] is True and s["err"] == outc[1] and s["err_args"] == [repr(f"boom-{d}")]):
                out.append(Violation("C07/wrong-error", f"delivery {d}: raised {outc[1]}('boom-{d}') but stored is_err={s['is_err']} err={s['err']} args={s['err_args']}"))
            if s["value"] is not None:
                out.append(Violation("C07/error-with-value", f"delivery {d}: error result carries return value {s['value']!r}"))
        else:
            want = f"ret-{k}-{fe[5]['attempt']}-d{d}"
            if len(outc) > 1 and outc[1] == "excval":
                want = repr(ValueError(want))
            if not (s["is_err"] is False and s["err"] is None and s["value"] == want):
                out.append(Violation("C07/wrong-value", f"delivery {d}: returned {want!r} but stored is_err={s['is_err']} err={s['err']} value={s['value']!r}"))
        # labels: the result carries the message's labels (as the worker parsed them)
        want_labels = dict(m.get("labels") or {})
        if tmo is not None:
            want_labels["timeout"] = ["float", repr(float(tmo))]
        if script["config"].get("client_label_adder"):
            want_labels.pop(m.get("mw_pop_label"), None)
            for name, val in (m.get("mw_labels") or {}).items():
                want_labels[name] = ["str", val]
            if tmo is not None and m.get("timeout_untyped"):
                want_labels["timeout"] = ["str", repr(float(tmo))]
        if user_labels(s["labels"]) != want_labels:
            out.append(Violation("C07/labels-differ", f"delivery {d}: result labels {user_labels(s['labels'])} != message labels {want_labels}"))
        # a failing backend never prevents completion
        sx = h.first(d, "save_exit")
        if sx is not None and not sx[5].get("ok") and t[5]["ackable"] and (script["config"].get("ack_type") or "when_saved") == "when_saved" \
                and h.first(d, "ack_call") is None:
            out.append(Violation("C07/not-acknowledged-after-backend-failure", f"delivery {d}: the result backend failed and the message never completed processing "
                                 "(its when_saved acknowledgement is missing)", d=d))
        if cbx[5].get("how") != "ok":
            out.append(Violation("C07/processing-aborted", f"delivery {d}: callback ended with {cbx[5].get('how')} (store ok={sx[5].get('ok') if sx else None})"))
        # stored copy (object / JSON / pickle) agrees
        if sx is not None and sx[5].get("ok") and w is not None:
            last = [x for x in w.store_log if x[0] == f"m{k}"]
            if last and last[-1][1] == d:
                try:
                    res = w.extra["client"].result_backend.load(f"m{k}")
                except Exception:
                    res = None
                if res is not None:
                    if res.is_err != s["is_err"] or (not s["is_err"] and summarize_value(res.return_value) != s["value"]):
                        out.append(Violation("C07/stored-copy-differs", f"delivery {d}: decoded stored result is_err={res.is_err} value={res.return_value!r}"))
    # liveness after backend failures: the run settled
    if run.fault_counts.get("save_fail") and not h.kind("crash"):
        st = h.kind("settled")
        if st and not st[0][5]["idle"]:
            out.append(Violation("C07/stuck-after-backend-failure", "messages were left unprocessed after a result-backend failure"))
    return out


def probes(script: dict, run: Any) -> Dict[str, int]:
    h = Hist(run)
    res = {"timeout_enforced": 0, "timeout_race_window": 0, "base_exception_stored": 0, "save_failed_and_continued": 0,
           "no_result_skipped": 0, "sync_task": 0}
    for e in h.kind("fn_exit"):
        if e[5].get("how") == "cancelled":
            res["timeout_enforced"] = 1
    for e in h.kind("save_enter"):
        if e[5].get("err") in ("KeyboardInterrupt", "SystemExit", "SimBaseError"):
            res["base_exception_stored"] = 1
    for e in h.kind("save_exit"):
        if not e[5].get("ok"):
            cb = h.first(e[4], "cb_exit")
            if cb is not None and cb[5].get("how") == "ok":
                res["save_failed_and_continued"] = 1
    for m in script["messages"]:
        if m.get("timeout") is not None:
            tot = sum((m.get("attempts") or [{}])[0].get("steps", []))
            if abs(int(round(m["timeout"] * 1e6)) - tot) <= 1:
                res["timeout_race_window"] = 1
        if m.get("kind", "valid") == "valid" and isinstance(m.get("task"), int) and script["tasks"][m["task"]].get("sync"):
            res["sync_task"] = 1
    for e in h.kind("fn_exit"):
        if e[5].get("how") == "exc:NoResultError" and not h.of(e[4], "save_enter"):
            res["no_result_skipped"] = 1
    return res


def nontrivial(script: dict, run: Any) -> bool:
    return default_nontrivial(script, run)

"""C18 — failure budget, reload and shutdown semantics of the process manager."""
from __future__ import annotations

import hashlib
from typing import Any, Dict, List

from sim.super_world import gen_super_script
from ._pcommon import ASSUMPTIONS, COMPONENTS_REAL, COMPONENTS_STUB, Violation, simplifications, simulate  # noqa: F401

ID = "C18"
RUNS = {"quick": 60000, "thorough": 1500000}
BUDGET_S = {"quick": 90, "thorough": 900}
CHUNK = 256
LIST_KEYS = ("events",)
RULE = ("seeded event scripts (as C17) x max_fails in {-1,0,1,2,3} x pid reuse on/off; a small reference model over seam observations "
        "(queue items, Process calls, os.kill, return value) is compared with the run; non-trivial = an injected event changed the "
        "process table or the queue; distinct = distinct trace")

SIGINT = 2


def gen(rs: int, tier: str, index: int) -> dict:
    kn = {}
    if index % 3 == 0:
        kn["weights"] = {"die": 8, "SIGHUP": 2, "file_change": 1, "SIGINT": 2, "SIGTERM": 1}
    return gen_super_script(rs, kn)


def oracle(script: dict, run: Any) -> List[Violation]:
    out: List[Violation] = []
    mf = script["max_fails"]
    ev = run.events
    if run.end == "raised":
        last_get = next((e for e in reversed(ev) if e[3] == "get"), None)
        sub = ""
        if run.exc == "ProcessLookupError" and last_get is not None and last_get[4]["item"]["type"] == "ShutdownAction":
            sub = "@shutdown-signals-reaped-pid"
        out.append(Violation(f"C18/start-raised{sub}", f"ProcessManager.start() raised {run.exc} at tick {ev[-1][1]}"))
        return out
    failures = 0
    budget_hit = None
    shutdown_at = None
    # a failure restart is for a worker that exited unexpectedly - not for one the manager itself has terminated
    injected = {x[4]["idx"] for x in ev if x[3] == "inject_die"}
    cur_idx: Dict[int, int] = {}
    term_by_mgr = set()
    for e in ev:
        if e[3] == "start":
            try:
                cur_idx[int(e[4]["name"].split("-")[1])] = e[4]["idx"]
            except (ValueError, IndexError):
                pass
        elif e[3] == "terminate" and e[4].get("state") == "terminating":
            term_by_mgr.add(e[4]["idx"])
        elif e[3] == "put" and e[4]["item"]["type"] == "ReloadOneAction" and not e[4]["item"]["reload_all"] and e[4]["phase"] == "scan":
            idx = cur_idx.get(e[4]["item"]["slot"])
            if idx is not None and idx in term_by_mgr and idx not in injected:
                out.append(Violation("C18/manager-terminated-worker-counted-as-failure", f"a failure restart was queued at tick {e[1]} for slot {e[4]['item']['slot']} whose "
                                     f"process {idx} did not exit unexpectedly: the manager itself had terminated it"))
                return out
    for e in ev:
        if e[3] == "put" and e[4]["item"]["type"] == "ReloadOneAction" and not e[4]["item"]["reload_all"]:
            if e[4]["in_handler"] or e[4]["phase"] != "scan":
                out.append(Violation("C18/failure-action-outside-scan", f"a failure action was queued outside the end-of-tick scan (tick {e[1]})"))
                return out
        if e[3] == "get":
            it = e[4]["item"]
            if budget_hit is not None:
                out.append(Violation("C18/continued-after-budget", f"an action was dequeued at tick {e[1]} after the failure budget was exhausted"))
                return out
            if shutdown_at is not None:
                out.append(Violation("C18/continued-after-shutdown", f"an action was dequeued at tick {e[1]} after the shutdown action"))
                return out
            if it["type"] == "ReloadOneAction" and not it["reload_all"]:
                failures += 1
                if mf >= 1 and failures >= mf:
                    budget_hit = e
            elif it["type"] == "ShutdownAction":
                shutdown_at = e
        if e[3] in ("start", "terminate") and budget_hit is not None and e[0] > budget_hit[0]:
            out.append(Violation("C18/restart-after-budget", f"{e[3]} of process {e[4]['idx']} after the failure budget was exhausted"))
            return out
        if e[3] == "start" and shutdown_at is not None and e[0] > shutdown_at[0]:
            out.append(Violation("C18/start-after-shutdown", f"a process was started at tick {e[1]} after the shutdown action was handled"))
            return out
    # ---- the manager installs its handlers before it starts supervising: a SIGHUP / SIGINT / SIGTERM that finds no handler would
    #      kill the manager (default action) instead of reloading / shutting down its workers
    for e in ev:
        if e[3] == "inject_signal" and not e[4]["handled"]:
            out.append(Violation("C18/signal-not-handled", f"{e[4]['sig']} delivered at tick {e[1]} found no handler installed by the manager"))
            return out
    # ---- every signal delivered to the manager's handler (and every file change) puts its action on the queue
    for i, e in enumerate(ev):
        want_type = None
        if e[3] == "inject_signal" and e[4]["handled"]:
            want_type = "ReloadAllAction" if e[4]["sig"] == "SIGHUP" else "ShutdownAction"
        elif e[3] == "inject_file_change":
            want_type = "ReloadAllAction"
        if want_type is None:
            continue
        nxt = next((x for x in ev[i + 1:] if x[3] != "pt"), None)
        if nxt is None or nxt[3] != "put" or nxt[4]["item"]["type"] != want_type:
            what = e[4].get("sig", "file change")
            out.append(Violation("C18/signal-request-dropped", f"{what} delivered at tick {e[1]} did not put a {want_type} on the action queue"))
            return out
    # ---- every dequeued reload-all request is expanded into one per-slot reload action for every slot
    for i, e in enumerate(ev):
        if e[3] == "get" and e[4]["item"]["type"] == "ReloadAllAction":
            if budget_hit is not None and e[0] > budget_hit[0]:
                continue
            slots = []
            ended = False
            for x in ev[i + 1:]:
                if x[3] == "get":
                    break
                if x[3] in ("return", "forced", "raise"):
                    ended = True
                    break
                if x[3] == "put" and x[4]["item"]["type"] == "ReloadOneAction" and x[4]["item"]["reload_all"] and not x[4]["in_handler"]:
                    slots.append(x[4]["item"]["slot"])
            if not ended and sorted(slots) != list(range(script["workers"])):
                out.append(Violation("C18/reload-all-not-expanded", f"a reload-all request dequeued at tick {e[1]} produced per-slot reloads for slots {slots}, expected every slot 0..{script['workers'] - 1}"))
                return out
    ret = next((e for e in ev if e[3] == "return"), None)
    # ---- exit status
    if ret is not None and ret[4]["value"] == -1:
        if budget_hit is None:
            out.append(Violation("C18/failure-status-without-budget", f"start() returned -1 after {failures} handled failures, max_fails={mf}"))
            return out
    if budget_hit is not None:
        if ret is None or ret[4]["value"] != -1:
            out.append(Violation("C18/budget-not-enforced", f"{failures} failures handled with max_fails={mf} but start() did not return -1 (end: {run.end}, ret={ret[4]['value'] if ret else None})"))
            return out
    if shutdown_at is not None and budget_hit is None:
        if ret is None or ret[4]["value"] is not None:
            out.append(Violation("C18/shutdown-status", f"shutdown handled but start() ended with {run.end} ret={ret[4]['value'] if ret else None}"))
            return out
        # signals: exactly the live current workers, once each
        cur: Dict[str, dict] = {}
        state: Dict[int, str] = {}
        for e in ev:
            if e[0] > shutdown_at[0]:
                break
            if e[3] == "start":
                cur[e[4]["name"]] = {"idx": e[4]["idx"], "pid": e[4]["pid"]}
                state[e[4]["idx"]] = "live"
            elif e[3] == "inject_die":
                state[e[4]["idx"]] = "zombie"
            elif e[3] == "reap":
                state[e[4]["idx"]] = "reaped"
            elif e[3] == "terminate" and state.get(e[4]["idx"]) == "live":
                state[e[4]["idx"]] = "terminating"
        kills = [e for e in ev if e[3] == "os_kill" and e[0] > shutdown_at[0]]
        current_idx = {v["idx"] for v in cur.values()}
        for k in kills:
            if k[4]["res"] in ("foreign", "foreign-reused"):
                out.append(Violation("C18/shutdown-signals-foreign-process", f"shutdown signalled pid {k[4]['pid']} which is not a current worker of this manager ({k[4]['res']})"))
                return out
            if k[4].get("idx") not in current_idx:
                out.append(Violation("C18/shutdown-signals-old-worker", f"shutdown signalled process {k[4].get('idx')} which is not a current worker"))
                return out
            if k[4]["sig"] != SIGINT:
                out.append(Violation("C18/shutdown-wrong-signal", f"shutdown sent signal {k[4]['sig']}"))
                return out
        # deaths injected after the shutdown dequeue may turn a worker into a zombie before its kill: only workers live throughout are required
        died_after = {e[4]["idx"] for e in ev if e[3] == "inject_die" and e[0] > shutdown_at[0]}
        for name, c in cur.items():
            n = sum(1 for k in kills if k[4].get("idx") == c["idx"])
            if n > 1:
                out.append(Violation("C18/shutdown-signalled-twice", f"{name} was signalled {n} times"))
                return out
            if state.get(c["idx"]) in ("live", "terminating") and c["idx"] not in died_after and n != 1:
                out.append(Violation("C18/shutdown-missed-live-worker", f"{name} (live) was signalled {n} times on shutdown"))
                return out
    # ---- reload: every dequeued per-slot action leads to exactly one (terminate, join, start) of that slot in that tick
    by_tick: Dict[int, Dict[str, Any]] = {}
    for e in ev:
        t = by_tick.setdefault(e[1], {"handled": [], "starts": {}, "end": None})
        if e[3] == "get" and e[4]["item"]["type"] == "ReloadOneAction":
            t["handled"].append((e[0], e[4]["item"]["slot"], e[4]["item"]["reload_all"]))
        elif e[3] == "start" and e[1] > 0:
            t["starts"][e[4]["name"]] = t["starts"].get(e[4]["name"], 0) + 1
        elif e[3] in ("return", "forced", "raise"):
            t["end"] = e[0]
    for tick, t in by_tick.items():
        for name, n in t["starts"].items():
            if n > 1:
                out.append(Violation("C18/restarted-twice-in-a-tick", f"{name} was started {n} times in tick {tick}"))
                return out
        for seq, slot, ra in t["handled"]:
            if budget_hit is not None and seq >= budget_hit[0]:
                continue
            if 0 <= slot < script["workers"] and t["starts"].get(f"worker-{slot}", 0) != 1 and t["end"] is None:
                out.append(Violation("C18/reload-not-performed", f"a reload action for slot {slot} (reload_all={ra}) was dequeued in tick {tick} but the slot was started {t['starts'].get(f'worker-{slot}', 0)} times"))
                return out
    return out


def probes(script: dict, run: Any) -> Dict[str, int]:
    ev = run.events
    res = {"returned_failure_status": 0, "returned_success_on_signal": 0, "reload_all_with_budget": 0, "shutdown_with_dead_worker": 0,
           "reload_all_twice_in_tick": 0, "max_fails_off": int(script["max_fails"] < 1), "shutdown_before_failure_action": 0}
    ret = next((e for e in ev if e[3] == "return"), None)
    if ret is not None:
        res["returned_failure_status"] = int(ret[4]["value"] == -1)
        res["returned_success_on_signal"] = int(ret[4]["value"] is None)
    res["reload_all_with_budget"] = int(script["max_fails"] >= 1 and any(e[3] == "get" and e[4]["item"].get("reload_all") for e in ev))
    per_tick: Dict[int, int] = {}
    for e in ev:
        if e[3] == "get" and e[4]["item"]["type"] == "ReloadAllAction":
            per_tick[e[1]] = per_tick.get(e[1], 0) + 1
    res["reload_all_twice_in_tick"] = int(any(v > 1 for v in per_tick.values()))
    sd = next((e for e in ev if e[3] == "get" and e[4]["item"]["type"] == "ShutdownAction"), None)
    if sd is not None:
        dead = set()
        for e in ev:
            if e[0] > sd[0]:
                break
            if e[3] == "inject_die":
                dead.add(e[4]["idx"])
            if e[3] == "start":
                pass
        cur = {}
        for e in ev:
            if e[0] > sd[0]:
                break
            if e[3] == "start":
                cur[e[4]["name"]] = e[4]["idx"]
        res["shutdown_with_dead_worker"] = int(any(i in dead for i in cur.values()))
    puts = [e for e in ev if e[3] == "put"]
    for i, e in enumerate(puts):
        if e[4]["item"]["type"] == "ShutdownAction" and any(x[4]["item"]["type"] == "ReloadOneAction" and x[1] == e[1] for x in puts[i + 1:]):
            res["shutdown_before_failure_action"] = 1
    return res


def nontrivial(script: dict, run: Any) -> bool:
    return any(e[3] in ("inject_die", "inject_signal", "inject_file_change") for e in run.events)


def signature(run: Any) -> int:
    hs = hashlib.blake2b(digest_size=8)
    for e in run.events:
        if e[3] != "pt":
            hs.update(f"{e[1]}:{e[3]}:{e[4].get('idx', e[4].get('slot', e[4].get('sig')))}|".encode())
    hs.update(str(run.script["max_fails"]).encode())
    return int.from_bytes(hs.digest(), "big")

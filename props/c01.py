"""C01 — every message taken from the broker is executed exactly once."""
from __future__ import annotations

from typing import Any, Dict, List

from sim.gen_worker import gen_worker_script, tier_knobs
from ._wcommon import (ASSUMPTIONS, COMPONENTS_REAL, COMPONENTS_STUB, Hist, Violation, default_nontrivial,  # noqa: F401
                       simplifications, simulate)

from ._wcommon import abstract_states  # noqa: F401,E402

ID = "C01"
RUNS = {"quick": 12000, "thorough": 250000}
BUDGET_S = {"quick": 60, "thorough": 900}
RULE = ("seeded scenario scripts: mixed valid / malformed / unknown-task messages, bursts and trickles, stop event or "
        "max_tasks_to_execute in about half of the runs, stop instants biased to look-ahead/hand-over/poll boundaries; "
        "'no limit' spelled None / 0 / negative, task names re-registered with a function of the other kind, 4-15 s bodies, 5% of the runs with warnings as errors; "
        "non-trivial = two deliveries overlapped in callback() or a fault/stop fired; distinct = distinct interleaving signature")

KNOBS = {
    "n_msgs": (1, 14),
    "N": [None, None, None, 1, 2, 3, 4, 6],
    "W": [None],
    "p_stop": 0.5,
    "p_faults": 0.6,
    "p_malformed": 0.15,
    "p_unknown": 0.1,
    "p_dup": 0.08,
    "p_timeout": 0.05,
    "p_warn_error": 0.05,
    "p_deps": 0.1,
    "p_sync": 0.15,
    "middlewares": (0, 1),
    "durations": {"zero": 2, "tiny": 3, "short": 4, "medium": 3, "long": 2, "poll": 1, "tie": 4, "vlong": 1},
}


def gen(rs: int, tier: str, index: int) -> dict:
    kn = KNOBS
    if index % 6 == 2:
        # a saturated worker with a deep prefetch buffer whose bodies end in the very same loop iteration (burst arrival, equal
        # durations, no CPU-time jitter): several slots are released before the runner gets to run again
        kn = dict(KNOBS, A=[2, 2, 3], P=[2, 3, 5], workers=[1], arrival=["burst"], n_msgs=(6, 14), cpu=False, p_stop=0.2,
                  durations={"tie": 1}, p_malformed=0.03, p_unknown=0.03, p_timeout=0.0, p_sync=0.0)
    s = gen_worker_script(rs, tier_knobs(kn, tier, index))
    if index % 6 == 2:
        for m in s["messages"]:
            m["send_at_us"] = 0
            m.pop("net", None)
            m.pop("ack", None)
            m.pop("save", None)
    from sim.rng import stream
    if index % 9 == 7 and s["config"]["workers"] == 1:
        # the programmatic entry point taskiq.api.run_receiver_task with one or two broker.listen() failures: it builds a new Receiver
        # and subscribes again; sync and async messages taken afterwards still run exactly once
        ra = stream(rs, "c01api")
        s["config"]["entry"] = "api"
        n = max(1, len(s["messages"]))
        pts = sorted(ra.randint(0, n) for _ in range(ra.choice([1, 1, 2])))
        # ... or the broker ends the stream in an orderly way: everything taken so far is drained before the next subscription
        s["config"]["listen_end_after" if ra.random() < 0.35 else "listen_fail_after"] = pts
        s["config"]["N"] = None
        s["ops"] = [o for o in s["ops"] if o.get("op") != "stop"]          # this entry point's only stop request is cancellation: not graceful
    rl = stream(rs, "c01labels")
    if rl.random() < 0.2:
        # typed labels on the messages, one of which a client-side pre_send middleware consumes (pops) after the kicker typed it,
        # another one it adds: the receiver sees type information for a label that is not there, and a label without type information
        s["config"]["client_label_adder"] = True
        for m in s["messages"]:
            if m.get("kind", "valid") == "valid" and rl.random() < 0.7:
                m["labels"] = {"route": ["str", rl.choice(["fast", "slow"])], "prio": ["int", str(rl.randint(0, 9))]}
                m["mw_pop_label"] = rl.choice(["route", "prio"])
                if rl.random() < 0.5:
                    m["mw_labels"] = {"origin": "api"}
    r = stream(rs, "c01late")
    if r.random() < 0.25 and s["messages"]:
        # a shared task that is registered only after the workers started (e.g. imported by a startup handler)
        at = r.choice([1, 100, 10_000, 200_000])
        s["late_tasks"] = [{"name": "late0", "at_us": at, "ctx": r.random() < 0.5, "sync": False, "deps": [], "root": []}]
        for m in s["messages"]:
            if m.get("kind", "valid") == "valid" and r.random() < 0.5:
                m["task_name"] = "late0"
                m["via_default_broker"] = True
                m["send_at_us"] = max(m["send_at_us"], at + 1)
                m.pop("pool_delay_us", None)
                m.pop("dep_us", None)
                m.pop("dep_fail", None)
                for a in m.get("attempts", []):
                    if a.get("out", ["ret"])[0] == "requeue":
                        a["out"] = ["ret"]
    elif index % 6 != 2 and r.random() < 0.12 and s["messages"]:
        # the task name of template 0 is registered again half-way with a function of the other kind (sync <-> async), after the
        # receiver has already prepared (and possibly executed) the first one: messages taken afterwards run the new function once
        times = sorted(m["send_at_us"] for m in s["messages"])
        rt = 1 if len(s["tasks"]) > 1 and s["tasks"][1].get("sync") and r.random() < 0.6 else 0      # sync -> async or async -> sync
        s["ops"].append({"op": "reregister", "task": rt, "at_us": times[len(times) // 2]})
        s["tasks"][rt]["ctx"] = False
        for m in s["messages"]:
            if m.get("task") == rt:
                m.pop("timeout", None)
                for a in m.get("attempts", []):
                    if a.get("out", ["ret"])[0] in ("requeue", "reject"):
                        a["out"] = ["ret"]
    return s


def oracle(script: dict, run: Any) -> List[Violation]:
    h = Hist(run)
    out: List[Violation] = []
    N = script["config"].get("N")
    take_ord: Dict[str, int] = {}
    for t in h.takes():
        d, k, node = t[4], t[5]["k"], t[2]
        take_ord[node] = take_ord.get(node, 0) + 1
        wn = t[5]["w"]
        gen = 0 if "." not in node else int(node.split(".")[1])
        if h.crashed(wn, gen):
            continue
        m = h.msg(script, k)
        kind = m.get("kind", "valid")
        n_enter = len(h.of(d, "fn_enter"))
        expect = 1 if kind == "valid" else 0
        if n_enter == expect:
            continue
        if expect == 1 and n_enter == 0:
            if script["config"].get("entry") == "api" and not h.of(d, "cb_enter") and \
                    any(e[0] > t[0] and e[5].get("w") == wn for e in h.kind("listen_fail")):
                # handed over by a subscription that then failed: the message went down with that listen() call, unacknowledged (a
                # broker redelivers it) - the same as a crash as far as this property goes
                continue
            sub = "lost"
            if N and take_ord[node] == N + 1 and not h.of(d, "cb_enter"):
                sub = "lost@max_tasks"
            elif not h.of(d, "cb_enter"):
                sub = "lost-before-callback"
            out.append(Violation(f"C01/{sub}", f"delivery {d} (message {k}) was taken by {node} (its take #{take_ord[node]}) but its task function never ran; N={N}",
                                 d=d, k=k, take_no=take_ord[node]))
        elif n_enter > expect:
            out.append(Violation("C01/executed-more-than-once" if expect else "C01/skipped-message-executed",
                                 f"delivery {d} (message {k}, {kind}) entered the task function {n_enter} times, expected {expect}", d=d, k=k))
    taken = {t[4] for t in h.takes()}
    for e in h.kind("fn_enter"):
        if e[4] not in taken:
            out.append(Violation("C01/execution-without-take", f"task function entered for delivery {e[4]} that no worker took"))
    for e in h.kind("listen_raise"):
        out.append(Violation("C01/listen-crashed", f"listen() of worker {e[5]['w']} raised {e[5]['exc']}"))
    return out


def probes(script: dict, run: Any) -> Dict[str, int]:
    h = Hist(run)
    res = {"malformed_skipped": 0, "unknown_skipped": 0, "stop_with_backlog": 0, "max_tasks_reached": 0,
           "take_after_stop": 0, "poll_timeout_path": 0, "late_registered_task_executed": 0}
    for t in h.takes():
        m = h.msg(script, t[5]["k"])
        if m.get("kind") == "malformed" and h.of(t[4], "cb_exit"):
            res["malformed_skipped"] = 1
        if m.get("kind") == "unknown" and h.of(t[4], "cb_exit"):
            res["unknown_skipped"] = 1
    stops = h.kind("stop_set")
    if stops:
        t0 = stops[0][0]
        if any(e[0] > t0 for e in h.takes()):
            res["take_after_stop"] = 1
        if any(e[0] > t0 for e in h.kind("cb_enter")):
            res["stop_with_backlog"] = 1
    N = script["config"].get("N")
    if N:
        per: Dict[str, int] = {}
        for e in h.kind("cb_enter"):
            per[e[2]] = per.get(e[2], 0) + 1
        if any(v >= N for v in per.values()):
            res["max_tasks_reached"] = 1
    if run.sim_us > 400_000:
        res["poll_timeout_path"] = 1
    late = {m["k"] for m in script["messages"] if m.get("task_name") == "late0"}
    if any(t[5]["k"] in late and h.of(t[4], "fn_enter") for t in h.takes()):
        res["late_registered_task_executed"] = 1
    return res


def nontrivial(script: dict, run: Any) -> bool:
    return default_nontrivial(script, run)

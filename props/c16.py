"""C16 — scheduled sends carry the schedule's payload and honour source callbacks."""
from __future__ import annotations

import asyncio
import gc
import hashlib
import json
from typing import Any, Dict, List

from sim.gen_sched import TIME_REPRS, gen_labels, gen_sched_script
from sim.cronref import gen_expr
from sim.loop import Quiescent, SimLoop, StepCap, TimeCap
from sim.rng import stream
from sim.sched_world import (CLOCK, RecBroker, SRun, SchedWorld, _dec, _to_us, install_seams, make_time)
from sim.sched_world import simulate as _simulate
from sim.worker_world import FRAMEWORK_LABELS, enc_labels, reset_globals
from taskiq.brokers.shared_broker import async_shared_broker
from taskiq.schedule_sources.label_based import LabelScheduleSource
from taskiq.scheduler.scheduler import TaskiqScheduler
from ._scommon import ASSUMPTIONS, COMPONENTS_REAL, COMPONENTS_STUB, MIN, SHist, Violation, all_specs, simplifications  # noqa: F401

ID = "C16"
RUNS = {"quick": 16000, "thorough": 300000}
BUDGET_S = {"quick": 90, "thorough": 900}
CHUNK = 32
LIST_KEYS = ("ops", "fire")
RULE = ("two drivers. loop (half of the runs): the scheduler-world scenarios of C15 (scripted sources with sync/async, cancelling or not "
        "pre_send/post_send, failing kicks, real LabelScheduleSource); per firing the order pre_send < kick < post_send and the decoded "
        "payload are checked. label (other half): tasks with arbitrary lists of cron/time/invalid entries (duplicates, equal times, "
        "several tasks, foreign-broker tasks), LabelScheduleSource.get_schedules() compared with a list model before and after every "
        "firing, firings through the real TaskiqScheduler.on_ready in seeded orders, up to 3 concurrently with send latency. "
        "non-trivial = a message was sent; distinct = distinct event sequence")


def gen(rs: int, tier: str, index: int) -> dict:
    if index % 2 == 0:
        s = gen_sched_script(rs, {"p_cancel": 0.25, "p_label_source": 0.4, "horizon_min": (2, 8)})
        s["mode"] = "loop"
        rp = stream(rs, "c16stamp")
        for src in s["sources"]:
            if src.get("kind") == "scripted" and rp.random() < 0.3:
                src["pre_stamp"] = True          # this source's pre_send stamps a run counter into the task's labels and kwargs
        return s
    r = stream(rs, "c16")
    base = 1_700_000_000_000_000 + r.randint(0, 10**9) * 1000
    times = [base + r.choice([0, 1, 60_000_000, 1_000_000]) * r.randint(0, 3) for _ in range(3)]
    tasks = []
    n = 0
    for ti in range(r.randint(1, 4)):
        entries = []
        for _ in range(r.randint(0, 5)):
            c = r.randint(0, 9)
            ent: Dict[str, Any] = {"id": f"S{n}", "args": [r.randint(0, 5)] if r.random() < 0.4 else [], "kwargs": {"a": 1} if r.random() < 0.3 else {}}
            n += 1
            if c <= 2:
                ent["cron"] = gen_expr(r, dense=True)
            elif c <= 7:
                ent["time"] = {"us": r.choice(times), "repr": r.choice(["naive", "naive", "utc", "fixed:60", "fixed:-330", "zi:Asia/Tokyo"])}
            elif c == 8:
                ent["cron"] = gen_expr(r, dense=True)
                ent["time"] = {"us": r.choice(times), "repr": "naive"}
            else:
                ent = {"args": ["invalid"]}          # neither cron nor time: must be skipped
            if r.random() < 0.3 and "id" in ent:
                ent["labels"] = gen_labels(r)
            entries.append(ent)
        tasks.append({"name": f"lt{ti}", "schedule": entries, "labels": gen_labels(r), "foreign": r.random() < 0.2})
    fire = []
    for _ in range(r.randint(1, 8)):
        fire.append({"pick": r.randint(0, 99), "concurrent": r.choice([1, 1, 2, 3]), "kick_delay_us": r.choice([0, 0, 1, 500])})
    script = {"world": "sched", "mode": "label", "run_seed": rs, "tasks": tasks, "fire": fire, "start": {"epoch_us": base, "local_off_min": 0}}
    foreign = [t for t in tasks if t.get("foreign")]
    if foreign and r.random() < 0.35:
        # after the source has already listed (and skipped) a foreign task, a task with the same name is registered on the source's
        # own broker: from then on its entries belong to the source
        ft = r.choice(foreign)
        entries = []
        for _ in range(r.randint(1, 3)):
            ent = {"id": f"S{n}", "args": [], "kwargs": {}}
            n += 1
            if r.random() < 0.4:
                ent["cron"] = gen_expr(r, dense=True)
            else:
                ent["time"] = {"us": r.choice(times), "repr": r.choice(["naive", "utc", "fixed:60"])}
            entries.append(ent)
        script["late_own"] = {"name": ft["name"], "schedule": entries, "at_step": r.randint(0, len(fire) - 1)}
    return script


# ----------------------------------------------------------------- label driver
def _entry_view(task_name: str, e: dict) -> dict:
    return {"task": task_name, "cron": e.get("cron"), "time_us": None if e.get("time") is None else e["time"]["us"],
            "time_repr": None if e.get("time") is None else e["time"]["repr"],
            "args": ([e["id"]] + list(e.get("args", []))) if "id" in e else list(e.get("args", [])), "kwargs": dict(e.get("kwargs") or {})}


def _sched_view(s: Any) -> dict:
    return {"task": s.task_name, "cron": s.cron, "time_us": None if s.time is None else _to_us(s.time), "args": list(s.args), "kwargs": dict(s.kwargs)}


def _strip(v: dict) -> dict:
    return {k: x for k, x in v.items() if k != "time_repr"}


def simulate(script: dict) -> Any:
    if script["mode"] == "loop":
        return _simulate(script)
    install_seams()
    reset_globals()
    from sim.sched_world import UUID_COUNTER
    UUID_COUNTER["n"] = 0
    world = SchedWorld({"run_seed": script["run_seed"], "cpu": {"on": False}, "kicks": {}})
    loop = world.loop
    CLOCK.update(epoch_us=script["start"]["epoch_us"], local_off_min=0, loop=loop, fixed_us=None)
    run = SRun()
    run.script = script

    async def main() -> None:
        broker = RecBroker(world)
        ids = {"n": 0}

        def gen_id() -> str:
            ids["n"] += 1
            return f"id{ids['n']}"
        broker.with_id_generator(gen_id)
        # model: entries of own-broker tasks, in the order get_all_tasks() lists tasks
        order = [t for t in script["tasks"] if t.get("foreign")] + [t for t in script["tasks"] if not t.get("foreign")]
        model: List[dict] = []
        for t in script["tasks"]:
            entries = []
            for e in t["schedule"]:
                ent: Dict[str, Any] = {}
                if e.get("cron") is not None:
                    ent["cron"] = e["cron"]
                if e.get("time") is not None:
                    ent["time"] = make_time(e["time"])
                if "id" in e:
                    ent["args"] = [e["id"]] + list(e.get("args", []))
                elif e.get("args"):
                    ent["args"] = list(e["args"])
                if e.get("kwargs"):
                    ent["kwargs"] = dict(e["kwargs"])
                if e.get("labels") is not None:
                    ent["labels"] = {k: _dec(v) for k, v in e["labels"].items()}
                entries.append(ent)

            def fn() -> None:
                return None
            fn.__name__ = fn.__qualname__ = "fn_" + t["name"]
            fn.__module__ = "simtasks"
            target = async_shared_broker if t.get("foreign") else broker
            target.register_task(fn, task_name=t["name"], schedule=entries, **{k: _dec(v) for k, v in (t.get("labels") or {}).items()})
        for t in order:
            if t.get("foreign"):
                continue
            for e in t["schedule"]:
                if e.get("cron") is None and e.get("time") is None:
                    continue
                model.append(_entry_view(t["name"], e))
        declared = {e["id"]: e for t in script["tasks"] for e in t["schedule"] if "id" in e}
        late = script.get("late_own")
        if late:
            declared.update({e["id"]: e for e in late["schedule"]})
        src = LabelScheduleSource(broker)
        scheduler = TaskiqScheduler(broker, [src])

        async def compare(tag: str) -> List[Any]:
            got = await src.get_schedules()
            world.rec("listing", tag=tag, got=[_sched_view(s) for s in got], model=[_strip(m) for m in model])
            return got
        listed = await compare("initial")
        for step, f in enumerate(script["fire"]):
            if late and late["at_step"] == step:
                ents = []
                for e in late["schedule"]:
                    ent2: Dict[str, Any] = {"args": [e["id"]]}
                    if e.get("cron") is not None:
                        ent2["cron"] = e["cron"]
                    if e.get("time") is not None:
                        ent2["time"] = make_time(e["time"])
                    ents.append(ent2)

                def fn2() -> None:
                    return None
                fn2.__name__ = fn2.__qualname__ = "fn_late_" + late["name"]
                fn2.__module__ = "simtasks"
                broker.register_task(fn2, task_name=late["name"], schedule=ents)
                # get_all_tasks() merges {**global, **local}: the name keeps the position it had as a shared task, i.e. before every
                # task that only the source's broker knows; the other shared tasks are still foreign and contribute nothing
                model[0:0] = [_entry_view(late["name"], e) for e in late["schedule"]]
                world.fired("own_task_registered_under_foreign_name")
                listed = await compare(f"after late registration before step {step}")
            if not listed:
                break
            picks = []
            for j in range(f["concurrent"]):
                picks.append(listed[(f["pick"] + j * 7) % len(listed)])
            world.script["kicks"]["default_delay_us"] = f["kick_delay_us"]
            for p in picks:
                world.rec("fire", step=step, sched=_sched_view(p))
            await asyncio.gather(*[scheduler.on_ready(src, p) for p in picks])
            # model: each fired one-shot removes the first entry of its task with an equal time
            for p in picks:
                if p.cron or not p.time:
                    continue
                # the fired entry as it was declared (identified by its marker argument), not as the source reported it
                decl = declared.get(p.args[0]) if p.args else None
                fired_time = make_time(decl["time"]) if decl is not None and decl.get("time") is not None else p.time
                for i, mdl in enumerate(model):
                    if mdl["task"] == p.task_name and mdl["time_us"] is not None and make_time({"us": mdl["time_us"], "repr": mdl["time_repr"]}) == fired_time:
                        model.pop(i)
                        break
            listed = await compare(f"after step {step}")
        world.rec("end")

    gc_was = gc.isenabled()
    gc.disable()
    asyncio.set_event_loop(loop)
    try:
        try:
            loop.run_until_complete(loop.create_task(main()))
            run.end = "done"
        except (Quiescent, StepCap, TimeCap) as exc:
            run.end = type(exc).__name__
    finally:
        world.closed = True
        run.events = world.events
        run.fault_counts = dict(world.fault_counts)
        run.steps = loop.steps
        run.sim_us = loop.now_us
        try:
            loop.shutdown_sim()
        finally:
            asyncio.set_event_loop(None)
            CLOCK["loop"] = None
            if gc_was:
                gc.enable()
    return run


# ------------------------------------------------------------------------ oracle
def prim(enc: dict) -> dict:
    return {k: v for k, v in enc.items() if v[0] in ("int", "float", "bool", "str", "bytes") and k not in FRAMEWORK_LABELS and k != "schedule"}


def oracle(script: dict, run: Any) -> List[Violation]:
    out: List[Violation] = []
    h = SHist(run)
    if script["mode"] == "label":
        for e in h.kind("listing"):
            if e[4]["got"] != e[4]["model"]:
                out.append(Violation("C16/label-source-listing", f"LabelScheduleSource.get_schedules() {e[4]['tag']}: {e[4]['got']} != list model {e[4]['model']}", tag=e[4]["tag"]))
                break
        if run.end != "done":
            out.append(Violation("C16/label-driver-stuck", f"label driver ended with {run.end}"))
        return out
    specs = all_specs(script)
    end = script["start"]["epoch_us"] + script["horizon_us"]
    cancelled = {c for src in script["sources"] for c in src.get("cancel", [])}
    stamped = {e[4].get("id") for e in run.events if e[3] == "pre_send" and e[4].get("source") is not None
               and e[4]["source"] < len(script["sources"]) and script["sources"][e[4]["source"]].get("pre_stamp")}
    # schedules created through task.kicker().schedule_by_time / schedule_by_cron must be handed to the source (once, under the
    # requested schedule id) - otherwise there is nothing for the scheduler to send
    for e in h.kind("op_create_failed"):
        out.append(Violation("C16/create-failed", f"creating schedule {e[4]['id']} through the kicker (schedule_by_time / schedule_by_cron) raised {e[4]['exc']}", sid=e[4]["id"]))
        return out
    for e in h.kind("op_create"):
        if e[4].get("in_source") != 1 or e[4].get("got_id") != e[4]["id"]:
            out.append(Violation("C16/created-schedule-not-in-source", f"schedule {e[4]['id']} created through the kicker: the source holds {e[4].get('in_source')} "
                                 f"entries with that id afterwards (CreatedSchedule id {e[4].get('got_id')})", sid=e[4]["id"]))
            return out
    for e in h.kind("op_unschedule"):
        if e[4].get("in_source") != 0:
            out.append(Violation("C16/unscheduled-still-in-source", f"schedule {e[4]['id']} was withdrawn with CreatedSchedule.unschedule() but its source still holds "
                                 f"{e[4].get('in_source')} entries with that id", sid=e[4]["id"]))
            return out
    state: Dict[Any, Dict[str, int]] = {}
    for e in run.events:
        kind = e[3]
        if kind not in ("pre_send", "kick_call", "kick_ok", "kick_fail", "post_send"):
            continue
        sid = e[4].get("id", e[4].get("marker"))
        st = state.setdefault(sid, {"pre": 0, "kick": 0, "ok": 0, "last_ok_wall": 0})
        if kind == "pre_send":
            st["pre"] += 1
        elif kind == "kick_call":
            if st["pre"] <= 0:
                out.append(Violation("C16/sent-without-pre-send", f"schedule {sid}: a message reached the broker without a preceding pre_send (event {e[0]})", sid=sid))
                break
            st["pre"] -= 1
            st["kick"] += 1
            if sid in cancelled:
                out.append(Violation("C16/cancelled-but-sent", f"schedule {sid}: pre_send cancelled the firing but a message was sent", sid=sid))
                break
            sp = specs.get(sid)
            msg = e[4]["msg"]
            if sp is not None and "undecodable" not in msg:
                want_args = [sid] + list(sp.get("args", []))
                want_kwargs = dict(sp.get("kwargs") or {})
                want_labels = dict(sp.get("labels") or {})
                if sp.get("label"):
                    want_labels.update(sp.get("task_labels") or {})
                if sp.get("created"):
                    # kicker.schedule_by_* stores the *prepared* (string) form of the labels in the ScheduledTask: that is "the schedule's labels"
                    from taskiq.labels import prepare_label
                    want_labels = {n: ["str", prepare_label(_dec(v))[0]] for n, v in want_labels.items()}
                got_labels = prim(msg["labels"])
                if sid in stamped:
                    # the source's pre_send stamps labels and kwargs together: the message must carry one state of the schedule - the
                    # stamp in its labels and the one in its kwargs agree (whichever state that is)
                    kn, ln = msg["kwargs"].get("run_no"), msg["labels"].get("run_no")
                    if (kn is None) != (ln is None) or (kn is not None and [ln[0], ln[1]] != ["str", str(kn)]):
                        out.append(Violation("C16/mixed-state-message", f"schedule {sid}: the message carries kwargs stamp {kn!r} but label stamp {ln!r}: "
                                             "it mixes the schedule's state before and after pre_send", sid=sid))
                        break
                    msg = dict(msg, kwargs={k: v for k, v in msg["kwargs"].items() if k != "run_no"})
                    got_labels = prim({k: v for k, v in msg["labels"].items() if k != "run_no"})
                if msg["task_name"] != sp["task"] or msg["args"] != want_args or msg["kwargs"] != want_kwargs or got_labels != prim(want_labels):
                    out.append(Violation("C16/wrong-payload", f"schedule {sid}: sent task={msg['task_name']} args={msg['args']} kwargs={msg['kwargs']} labels={got_labels}; "
                                         f"schedule has task={sp['task']} args={want_args} kwargs={want_kwargs} labels={prim(want_labels)}", sid=sid))
                    break
                sl = msg["labels"].get("schedule_id")
                if sl is None or sl[0] != "str" or (not sp.get("label") and sl[1] != sid):
                    out.append(Violation("C16/schedule-id-label", f"schedule {sid}: schedule_id label is {sl}", sid=sid))
                    break
            elif "undecodable" in msg:
                out.append(Violation("C16/undecodable-message", f"schedule {sid}: the sent message cannot be decoded ({msg['undecodable']})"))
                break
        elif kind == "kick_ok":
            st["kick"] -= 1
            st["ok"] += 1
            st["last_ok_wall"] = e[2]
        elif kind == "kick_fail":
            st["kick"] -= 1
        elif kind == "post_send":
            if st["ok"] <= 0:
                out.append(Violation("C16/post-send-without-send", f"schedule {sid}: post_send ran without a successful send before it (event {e[0]})", sid=sid))
                break
            st["ok"] -= 1
    if not out:
        for sid, st in state.items():
            if st["ok"] > 0 and st["last_ok_wall"] < end - 1_000_000:
                out.append(Violation("C16/post-send-missing", f"schedule {sid}: a message was sent successfully but post_send never ran", sid=sid))
                break
            if sid in cancelled and st["pre"] == 0:
                out.append(Violation("C16/cancel-bookkeeping", f"schedule {sid}: cancelled firing consumed"))
                break
    return out


def probes(script: dict, run: Any) -> Dict[str, int]:
    h = SHist(run)
    res = {"loop_mode": int(script["mode"] == "loop"), "label_mode": int(script["mode"] == "label"), "cancelled_firing": 0, "failed_send": int(bool(h.kind("kick_fail"))),
           "async_source_hooks": 0, "label_payload_checked": 0, "oneshot_removed": 0, "equal_times": 0, "foreign_task": 0, "concurrent_firings": 0, "created_through_kicker": int(any(e[3] == "op_create" for e in run.events))}
    if script["mode"] == "loop":
        cancelled = {c for src in script["sources"] for c in src.get("cancel", [])}
        res["cancelled_firing"] = int(any(e[4]["id"] in cancelled for e in h.kind("pre_send")))
        res["async_source_hooks"] = int(any(s.get("async_hooks") for s in script["sources"]))
        specs = all_specs(script)
        res["label_payload_checked"] = int(any(specs.get(e[4]["marker"], {}).get("label") for e in h.kind("kick_call")))
    else:
        ls = h.kind("listing")
        res["oneshot_removed"] = int(len(ls) >= 2 and len(ls[-1][4]["model"]) < len(ls[0][4]["model"]))
        ts = [e.get("time", {}).get("us") for t in script["tasks"] for e in t["schedule"] if e.get("time")]
        res["equal_times"] = int(len(ts) != len(set(ts)))
        res["foreign_task"] = int(any(t.get("foreign") for t in script["tasks"]))
        res["concurrent_firings"] = int(any(f["concurrent"] > 1 for f in script["fire"]))
    return res


def nontrivial(script: dict, run: Any) -> bool:
    return any(e[3] == "kick_call" for e in run.events)


def signature(run: Any) -> int:
    hs = hashlib.blake2b(digest_size=8)
    for e in run.events:
        hs.update(f"{e[3]}:{e[4].get('marker', e[4].get('source', e[4].get('id', e[4].get('tag'))))}|".encode())
    hs.update(json.dumps(run.script.get("tasks", []), sort_keys=True).encode())
    return int.from_bytes(hs.digest(), "big")

"""C09 — labels keep value and type end to end; per-call customisation never leaks."""
from __future__ import annotations

import asyncio
from typing import Any, Dict, List

from sim.gen_worker import gen_worker_script, tier_knobs
from sim.rng import stream
from sim.worker_world import FRAMEWORK_LABELS, SENDING, dec_label, enc_label, enc_labels, make_endpoint
from sim.worker_world import simulate as _simulate
from ._wcommon import (ASSUMPTIONS, COMPONENTS_REAL, COMPONENTS_STUB, Hist, Violation, default_nontrivial,  # noqa: F401
                       simplifications)

from ._wcommon import abstract_states  # noqa: F401,E402

ID = "C09"
RUNS = {"quick": 10000, "thorough": 250000}
BUDGET_S = {"quick": 60, "thorough": 900}
LIST_KEYS = ("messages", "ops", "client_ops")
RULE = ("seeded label dictionaries over int (incl. +-2^63, 10^30), float (incl. +-inf, nan, -0.0), bool, str (unicode, empty) and bytes "
        "(empty, non-UTF-8) set on the task, on a kicker, or both; JSON and pickle serializers, both formatters; each delivery followed "
        "by 0..3 retries (SimpleRetryMiddleware) and/or requeues (Context.requeue) looping through the simulated broker; plus histories "
        "of kicker()/with_labels()/with_task_id()/with_broker()/kiq() calls on the same task from 1..3 concurrent client coroutines "
        "with suspending pre_send hooks; non-trivial = a retry/requeue happened, sends interleaved, or deliveries overlapped")

KNOBS = {
    "n_msgs": (0, 6),
    "N": [None],
    "W": [None],
    "p_stop": 0.0,
    "p_faults": 0.0,
    "p_timeout": 0.0,
    "p_sync": 0.15,
    "p_deps": 0.0,
    "middlewares": (1, 2),
    "p_mw_replace": 0.0,
    "outcomes": {"ret": 5, "exc": 3, "baseexc": 0, "nores": 0, "requeue": 3},
    "durations": {"zero": 3, "tiny": 4, "short": 3, "medium": 0, "long": 0, "poll": 0},
}

INTS = [0, 1, -1, 2**63, -(2**63), 2**63 - 1, 10**30, -(10**30), 42]
FLOATS = [0.0, -0.0, 1.5, -2.25, float("inf"), float("-inf"), float("nan"), 1e-320, 1.7976931348623157e308, 0.1]
STRS = ["", "x", "héllo wörld", "日本語", "a\nb", "true", "123", " ", "\u0000", "😀"]
BYTES = [b"", b"abc", b"\xff\xfe\x00", b"\x80", bytes(range(256)), b"caf\xc3\xa9"]


def rand_label(r: Any) -> Any:
    c = r.randint(0, 4)
    if c == 0:
        return r.choice(INTS + [r.randint(-10**6, 10**6)])
    if c == 1:
        return r.choice(FLOATS + [r.uniform(-1e6, 1e6)])
    if c == 2:
        return r.random() < 0.5
    if c == 3:
        return r.choice(STRS)
    return r.choice(BYTES + [bytes(r.randint(0, 255) for _ in range(r.randint(1, 6)))])


def rand_labels(r: Any, prefix: str, lo: int = 0, hi: int = 4) -> Dict[str, Any]:
    return {f"{prefix}{i}": enc_label(rand_label(r)) for i in range(r.randint(lo, hi))}


def gen(rs: int, tier: str, index: int) -> dict:
    r = stream(rs, "c09")
    kn = dict(KNOBS)
    mode = r.choice(["e2e", "e2e", "history", "both"])
    use_retry = r.random() < 0.6
    if use_retry:
        kn["retry"] = {"count": r.randint(2, 4), "label": True, "no_result_on_retry": r.random() < 0.5}
    if mode == "history":
        kn["n_msgs"] = (0, 1)
    s = gen_worker_script(rs, tier_knobs(kn, tier, index))
    # middlewares: make sure a pre_execute recorder exists and pre_send suspends sometimes
    rec_mw = None
    for mw in s["config"]["middlewares"]:
        if "hooks" in mw:
            rec_mw = mw
            break
    if rec_mw is None:
        rec_mw = {"hooks": {}}
        s["config"]["middlewares"].append(rec_mw)
    rec_mw["hooks"].setdefault("pre_execute", {"async": False})
    rec_mw["hooks"]["pre_send"] = {"async": True, "us": r.choice([0, 1, 50, 500])}
    s["config"]["middlewares"].append({"hooks": {"on_error": {"async": False}, "post_execute": {"async": r.random() < 0.3, "us": r.choice([0, 10])},
                                                 "post_save": {"async": False}}})
    for mw in s["config"]["middlewares"]:
        for hs in mw.get("hooks", {}).values():
            hs.pop("replace", None)
    # declared labels per task template
    for t in s["tasks"]:
        if not t.get("client_only"):
            t["labels"] = rand_labels(r, "decl", 0, 3)
    for m in s["messages"]:
        if m.get("kind", "valid") != "valid":
            continue
        m["labels"] = rand_labels(r, "call", 0, 4)
        if r.random() < 0.3 and s["tasks"][m["task"]].get("labels"):
            # override a declared label for this call only
            name = r.choice(sorted(s["tasks"][m["task"]]["labels"]))
            m["labels"][name] = enc_label(rand_label(r))
        m.pop("timeout", None)
        m.pop("save", None)
        ts = s["tasks"][m["task"]]
        n = r.randint(1, 4)
        atts = []
        for i in range(n):
            last = i == n - 1
            c = r.random()
            if last:
                atts.append({"steps": [r.choice([0, 10, 1000])], "out": ["ret"]})
            elif c < 0.5 and use_retry:
                atts.append({"steps": [r.choice([0, 10, 1000])], "out": ["exc", "ValueError"]})
            elif ts.get("ctx") and not ts.get("sync"):
                atts.append({"steps": [r.choice([0, 10, 1000])], "out": ["requeue"]})
            else:
                atts.append({"steps": [r.choice([0, 10, 1000])], "out": ["ret"]})
                break
        m["attempts"] = atts
    if mode in ("history", "both"):
        clients = []
        for c in range(r.randint(1, 3)):
            ops = []
            for o in range(r.randint(1, 5)):
                kind = r.choice(["plain", "labels", "labels", "task_id", "broker", "labels_task_id", "reuse", "reuse_override", "reuse_concurrent"])
                op: Dict[str, Any] = {"id": f"c{c}o{o}", "kind": kind, "pause_us": r.choice([0, 0, 1, 30, 400])}
                if kind in ("labels", "labels_task_id", "reuse", "reuse_override", "reuse_concurrent"):
                    op["labels"] = rand_labels(r, f"k{c}{o}_", 1, 3)
                    if r.random() < 0.3 and s["tasks"][0].get("labels"):
                        op["labels"][r.choice(sorted(s["tasks"][0]["labels"]))] = enc_label(rand_label(r))
                if kind == "reuse_override":
                    op["labels2"] = {n: enc_label(rand_label(r)) for n in op["labels"]}
                    if r.random() < 0.5:
                        op["labels2"][f"k{c}{o}_new"] = enc_label(rand_label(r))
                if kind in ("task_id", "labels_task_id"):
                    op["task_id"] = f"custom-{c}-{o}"
                ops.append(op)
            clients.append({"start_us": r.choice([0, 0, 10, 200]), "ops": ops})
        s["client_ops"] = clients
        if r.random() < 0.5:
            # a client-side pre_send middleware stamps every outgoing message with a label of its own (here: its task id), in place,
            # and may suspend afterwards
            s["config"]["client_stamper"] = {"us": r.choice([0, 1, 50, 500])}
    s["config"]["mode"] = mode
    s["config"]["shared_history"] = mode in ("history", "both") and r.random() < 0.4
    if use_retry:
        for m in s["messages"]:
            if m.get("kind", "valid") == "valid":
                m["labels"]["retry_on_error"] = ["bool", True]
    return s


async def _client_fn(world: Any, client: Any) -> None:
    script = world.script
    other = make_endpoint(world, "client2")
    world.extra["client2"] = other
    task = client.find_task(script["tasks"][0]["name"])
    if script["config"].get("shared_history"):
        # a shared task: declared on AsyncSharedBroker, sent through the default broker
        from sim.worker_world import make_task_func
        from taskiq.brokers.shared_broker import async_shared_broker
        ts = dict(script["tasks"][0], name="shared_t")
        task = async_shared_broker.register_task(make_task_func(world, ts), task_name="shared_t",
                                                 **{k: dec_label(v) for k, v in (ts.get("labels") or {}).items()})
        async_shared_broker.default_broker(client)
    world.extra["declared_snapshot"] = enc_labels(dict(task.labels))

    async def one_client(spec: dict) -> None:
        if spec["start_us"]:
            await asyncio.sleep(spec["start_us"] / 1e6)
        for op in spec["ops"]:
            SENDING.set(op["id"])
            kind = op["kind"]
            try:
                if kind == "plain":
                    await task.kiq(op["id"])
                else:
                    kicker = task.kicker()
                    if "labels" in op:
                        kicker = kicker.with_labels(**{n: dec_label(v) for n, v in op["labels"].items()})
                    if "task_id" in op:
                        kicker = kicker.with_task_id(op["task_id"])
                    if kind == "broker":
                        kicker = kicker.with_broker(other)
                    if kind == "reuse_concurrent":
                        # the same kicker object sends two messages whose kiq() calls overlap
                        async def send(oid: str) -> None:
                            SENDING.set(oid)
                            await kicker.kiq(oid)
                        await asyncio.gather(send(op["id"]), send(op["id"] + "r"))
                    else:
                        await kicker.kiq(op["id"])
                    if kind == "reuse":
                        SENDING.set(op["id"] + "r")
                        await kicker.kiq(op["id"] + "r")
                    if kind == "reuse_override":
                        # the same kicker object sends again after with_labels() changed labels it already carried
                        kicker = kicker.with_labels(**{n: dec_label(v) for n, v in op["labels2"].items()})
                        SENDING.set(op["id"] + "r")
                        await kicker.kiq(op["id"] + "r")
                world.rec("client_op_done", None, op=op["id"])
            except BaseException as exc:  # noqa: BLE001
                world.rec("client_op_err", None, op=op["id"], exc=type(exc).__name__)
            if op["pause_us"]:
                await asyncio.sleep(op["pause_us"] / 1e6)

    await asyncio.gather(*[one_client(c) for c in script.get("client_ops", [])])
    world.extra["declared_after"] = enc_labels(dict(task.labels))


def simulate(script: dict) -> Any:
    return _simulate(script, _client_fn if script.get("client_ops") else None)


def user(enc: dict) -> dict:
    return {k: v for k, v in enc.items() if k not in FRAMEWORK_LABELS and k not in ("retry_on_error", "max_retries", "stamp")}


def oracle(script: dict, run: Any) -> List[Violation]:
    h = Hist(run)
    out: List[Violation] = []
    w = h.world
    # ------------------------------------------------------------ end to end
    for t in h.takes():
        d, k = t[4], t[5]["k"]
        m = h.msg(script, k)
        if not m or m.get("kind", "valid") != "valid":
            continue
        ts = script["tasks"][m["task"]]
        want = dict(ts.get("labels") or {})
        want.update(m.get("labels") or {})
        want = user(want)
        fe = h.first(d, "fn_enter")
        attempt = len([x for x in h.takes() if x[5]["k"] == k and x[0] < t[0]])
        how = "first delivery" if not attempt else f"delivery #{attempt + 1} (after retry/requeue)"
        sub = "" if not attempt else "@redelivery"
        obs = []
        for e in h.of(d, "hook"):
            if e[5]["hook"] == "pre_execute":
                obs.append(("pre_execute middleware", e[5]["labels"]))
        if fe is not None and fe[5].get("seen") is not None:
            obs.append(("Context", fe[5]["seen"]["labels"]))
        for e in h.of(d, "save_enter"):
            obs.append(("stored result", e[5]["labels"]))
        for e in h.of(d, "hook"):
            if e[5]["hook"] in ("on_error", "post_execute", "post_save"):
                obs.append((f"{e[5]['hook']} middleware", e[5]["labels"]))
        want_rt = None if not attempt else ["int", str(sum(1 for a in m["attempts"][:attempt] if a["out"][0] == "exc"))]
        if want_rt == ["int", "0"]:
            want_rt = None
        # X-Taskiq-requeue: number of requeues this message went through before this delivery (as str); the requeueing
        # execution itself sees n+1 after its function body (Context.requeue() writes it into its own message)
        n_rq = sum(1 for a in m["attempts"][:attempt] if a["out"][0] == "requeue")
        this_rq = attempt < len(m["attempts"]) and m["attempts"][attempt]["out"][0] == "requeue" and fe is not None
        for where, labels in obs:
            late = where.startswith(("on_error", "post_execute", "post_save", "stored"))
            n = n_rq + (1 if (this_rq and late) else 0)
            want_q = None if n == 0 else ["str", str(n)]
            if labels.get("X-Taskiq-requeue") != want_q:
                out.append(Violation("C09/requeue-label-leaked-into-delivery", f"message {k}, {how}: {where} saw X-Taskiq-requeue={labels.get('X-Taskiq-requeue')}, "
                                     f"this delivery's own message has {want_q}", k=k))
                break
        for where, labels in obs:
            if labels.get("_retries") != want_rt:
                out.append(Violation("C09/retry-label-leaked-into-delivery", f"message {k}, {how}: {where} saw _retries={labels.get('_retries')}, this delivery was sent with {want_rt}", k=k))
                break
        for where, labels in obs:
            got = user(labels)
            if got != want:
                diff = {n: (want.get(n), got.get(n)) for n in set(want) | set(got) if want.get(n) != got.get(n)}
                out.append(Violation(f"C09/label-changed{sub}", f"message {k}, {how}: labels seen in {where} differ from what was sent: {diff} (sent, seen)", k=k))
                break
        if h.first(d, "cb_enter") is not None and fe is None and h.first(d, "cb_exit") is not None:
            out.append(Violation(f"C09/message-unparsable{sub}", f"message {k}, delivery {d}: the worker could not parse / execute the message (labels {want})", k=k))
    # every scripted attempt happened (a requeued/retried message that vanished is a label problem too)
    st = h.kind("settled")
    if st and st[0][5]["idle"]:
        per_k: Dict[Any, int] = {}
        for e in h.kind("fn_enter"):
            kk = w.server.deliveries[e[4]].k
            per_k[kk] = per_k.get(kk, 0) + 1
        for m in script["messages"]:
            if m.get("kind", "valid") != "valid":
                continue
            want_n = len(m["attempts"])
            rc = next((mw["retry"] for mw in script["config"]["middlewares"] if mw.get("retry") is not None), None)
            # retries are bounded by the middleware; only requeues are unconditional
            n_exc_before = 0
            expect = 0
            for a in m["attempts"]:
                expect += 1
                if a["out"][0] == "exc":
                    n_exc_before += 1
                    if rc is None or n_exc_before >= rc["count"]:
                        break
                elif a["out"][0] != "requeue":
                    break
            got_n = per_k.get(m["k"], 0)
            if got_n < expect and not any(v.facts.get("k") == m["k"] for v in out):
                out.append(Violation("C09/redelivery-lost", f"message {m['k']}: executed {got_n} times, expected {expect} (retries/requeues); labels {m.get('labels')}", k=m["k"]))
    # ---------------------------------------------------------------- histories
    if script.get("client_ops"):
        decl = w.extra.get("declared_snapshot")
        after = w.extra.get("declared_after")
        if after is not None and decl != after:
            out.append(Violation("C09/task-labels-mutated", f"task.labels changed from {decl} to {after} after a history of kicker calls"))
        kicks = {e[5]["k"]: e for e in h.kind("kick_call") if e[5]["n"] == 0}
        for c in script["client_ops"]:
            for op in c["ops"]:
                ids = [op["id"]] + ([op["id"] + "r"] if op["kind"] in ("reuse", "reuse_override", "reuse_concurrent") else [])
                for oid in ids:
                    key = op.get("task_id", oid)
                    e = kicks.get(key)
                    if e is None:
                        out.append(Violation("C09/send-missing", f"client op {oid}: no message reached a broker (task id {key})"))
                        continue
                    want = dict(decl or {})
                    want.update(op.get("labels") or {})
                    if op["kind"] == "reuse_override" and oid.endswith("r"):
                        want.update(op["labels2"])
                    if script["config"].get("client_stamper") and e[5]["typed"].get("stamp") != ["str", e[5]["task_id"]]:
                        out.append(Violation("C09/kicker-labels-leak", f"client op {oid} ({op['kind']}): the message with task id {e[5]['task_id']} left with the stamp "
                                             f"{e[5]['typed'].get('stamp')} that the pre_send middleware wrote for another message", op=oid))
                    if user(e[5]["typed"]) != user(want):
                        out.append(Violation("C09/kicker-labels-leak", f"client op {oid} ({op['kind']}): sent labels {user(e[5]['typed'])}, expected declared+own overrides {user(want)}", op=oid))
                    want_tid = op.get("task_id", f"m{oid}")
                    if e[5]["task_id"] != want_tid:
                        out.append(Violation("C09/task-id-leak", f"client op {oid}: sent with task id {e[5]['task_id']}, expected {want_tid}"))
                    want_via = "client2" if op["kind"] == "broker" else "client"
                    if e[5].get("via") != want_via:
                        out.append(Violation("C09/broker-override-leak", f"client op {oid} ({op['kind']}): sent through {e[5].get('via')}, expected {want_via}"))
    return out


def probes(script: dict, run: Any) -> Dict[str, int]:
    h = Hist(run)
    res = {"retry_redelivery": 0, "requeue_redelivery": int(run.fault_counts.get("requeue", 0) > 0), "bytes_label_redelivered": 0,
           "nonfinite_float_redelivered": 0, "history_run": int(bool(script.get("client_ops"))), "shared_task_history": int(bool(script["config"].get("shared_history"))), "interleaved_sends": 0,
           "pickle_serializer": int(script["config"].get("serializer") == "pickle"), "json_formatter": int(script["config"].get("formatter") == "json")}
    for e in h.kind("kick_call"):
        if e[5]["n"] > 0 and e[2] != "client":
            res["retry_redelivery"] = 1
    for e in h.kind("fn_enter"):
        if e[5]["attempt"] and e[5].get("seen"):
            for n, v in e[5]["seen"]["labels"].items():
                if v[0] == "bytes":
                    res["bytes_label_redelivered"] = 1
                if v[0] == "float" and v[1] in ("inf", "-inf", "nan"):
                    res["nonfinite_float_redelivered"] = 1
    open_sends = 0
    for e in h.events:
        if e[3] == "hook" and e[5]["hook"] == "pre_send":
            open_sends += 1
            if open_sends >= 2:
                res["interleaved_sends"] = 1
        elif e[3] in ("kick_ok", "kick_fail"):
            open_sends = max(0, open_sends - 1)
    return res


def nontrivial(script: dict, run: Any) -> bool:
    p = probes(script, run)
    return bool(p["retry_redelivery"] or p["requeue_redelivery"] or p["interleaved_sends"]) or default_nontrivial(script, run)

"""C03 — concurrency limit respected; execution slots never leaked."""
from __future__ import annotations

from typing import Any, Dict, List

from sim.gen_worker import gen_worker_script, tier_knobs
from ._wcommon import (ASSUMPTIONS, COMPONENTS_REAL, COMPONENTS_STUB, Hist, Violation, default_nontrivial,  # noqa: F401
                       simplifications, simulate)

from ._wcommon import abstract_states  # noqa: F401,E402

ID = "C03"
RUNS = {"quick": 10000, "thorough": 150000}
BUDGET_S = {"quick": 60, "thorough": 900}
RULE = ("seeded outcome histories (success, exception, BaseException, timeout, no-result, malformed, unknown, save failure, "
        "failing pre_execute/on_error/post_execute/post_save hook) at random arrival/duration timings, followed by a saturation "
        "probe of A+2 long tasks; 10% of the single-worker runs use taskiq.api.run_receiver_task with a listen() failure (limit judged "
        "per receiver session), 10% the real cli start_listen entry; failing acks and cancelled awaits included; non-trivial = overlap or a fault fired; distinct = distinct interleaving signature")

KNOBS = {
    "n_msgs": (0, 12),
    "A": [None, 1, 1, 2, 2, 3, 4],
    "N": [None],
    "W": [None],
    "workers": [1, 1, 1, 2],
    "p_stop": 0.0,
    "p_faults": 0.7,
    "p_malformed": 0.12,
    "p_unknown": 0.1,
    "p_save_fail": 0.2,
    "p_hook_raise": 0.25,
    "p_cancel_fault": 0.12,
    "p_ack_fail": 0.1,
    "p_timeout": 0.2,
    "p_zero_timeout": 0.15,      # typed numeric zero (0 / 0.0) sent through the kicker: the body is ended at once
    "p_sync": 0.15,
    "p_deps": 0.1,
    "p_dep_fail": 0.15,
    "middlewares": (0, 3),
    "outcomes": {"ret": 6, "exc": 4, "baseexc": 2, "nores": 2, "requeue": 0},
    "p_probe": 0.85,
    "p_warn_error": 0.06,
    "durations": {"zero": 3, "tiny": 3, "short": 4, "medium": 3, "long": 1, "poll": 1, "tie": 3, "vlong": 1},
}


def gen(rs: int, tier: str, index: int) -> dict:
    kn = KNOBS
    if index % 10 == 5:
        # a history of timeouts with the retry middleware: bodies that never finish by themselves are ended by their timeout label on
        # every attempt; when the retries are used up all slots must be free again
        kn = dict(KNOBS, retry={"count": 3, "label": True, "no_result_on_retry": True}, p_timeout=0.6, p_sync=0.0)
    s = gen_worker_script(rs, tier_knobs(kn, tier, index))
    if index % 10 == 5:
        from sim.rng import stream as _stream
        rr = _stream(rs, "c03never")
        for m in s["messages"]:
            if m.get("timeout") is not None and rr.random() < 0.5:
                for a in m.get("attempts", []):
                    a["out"] = ["never"]
    if index % 10 == 7 and s["config"]["workers"] == 1:
        # programmatic entry point: taskiq.api.run_receiver_task reconnects after broker.listen() fails
        from sim.rng import stream
        r = stream(rs, "c03api")
        s["config"]["entry"] = "api"
        s["config"]["listen_fail_after"] = r.randint(0, max(1, len(s["messages"])))
        for m in s["messages"]:
            if isinstance(m.get("task"), int) and s["tasks"][m["task"]].get("sync"):
                m["task"] = 0
                m.pop("pool_delay_us", None)
    elif index % 10 == 3 and s["config"]["workers"] == 1:
        # the real `taskiq worker` child entry point (cli/worker/run.py start_listen): it creates and configures the event loop itself
        s["config"]["entry"] = "cli"
    from ._wcommon import sync_timeouts
    sync_timeouts(s, rs, "c03synctimeout")
    return s


def oracle(script: dict, run: Any) -> List[Violation]:
    h = Hist(run)
    out: List[Violation] = []
    cfg = script["config"]
    A = cfg.get("A")
    live: Dict[Any, List[Any]] = {}
    bodies: Dict[Any, set] = {}
    peak_probe: Dict[str, int] = {}
    probe_started = False
    order_take: Dict[str, List[Any]] = {}
    order_enter: Dict[str, List[Any]] = {}
    lf = h.kind("listen_fail")
    fail_seq = lf[0][0] if lf else None
    # after broker.listen() failed, run_receiver_task starts a new receiver (with its own limit) while callbacks of the failed one
    # may still be running: the limit is judged per receiver session (the deliveries taken between two listen failures)
    session_now: Dict[str, int] = {}
    session_of: Dict[Any, Any] = {}
    for e in h.events:
        kind, node, d = e[3], e[2], e[4]
        if kind == "listen_fail":
            wn = f"w{e[5]['w']}"
            for n2 in list(session_now) + [wn]:
                if n2 == wn or n2.startswith(wn + "."):
                    session_now[n2] = session_now.get(n2, 0) + 1
            continue
        if kind == "probe_start":
            probe_started = True
        elif kind == "take":
            session_of[d] = (node, session_now.setdefault(node, 0))
            order_take.setdefault(node, []).append(d)
        elif kind == "cb_enter":
            key = session_of.get(d, (node, 0))
            lv = live.setdefault(key, [])
            lv.append(d)
            order_enter.setdefault(node, []).append(d)
            if A and len(lv) > A:
                out.append(Violation("C03/limit-exceeded", f"worker {node} processes {len(lv)} messages at once > max_async_tasks={A} at event {e[0]}"
                                     + (f" (all taken by the receiver started after listen failure #{key[1]})" if key[1] else ""),
                                     event=e[0], live=len(lv)))
                break
            if probe_started:
                peak_probe[node] = max(peak_probe.get(node, 0), len(lv))
        elif kind == "cb_exit":
            lv = live.get(session_of.get(d, (node, 0)), [])
            if d in lv:
                lv.remove(d)
        elif kind == "fn_enter":
            key = session_of.get(d, (node, 0))
            bodies.setdefault(key, set()).add(d)
            if A and len(bodies[key]) > A:
                out.append(Violation("C03/bodies-exceed-limit", f"worker {node} has {len(bodies[key])} task functions running at once > max_async_tasks={A} at event {e[0]} "
                                     f"(deliveries {sorted(bodies[key])[:6]})", event=e[0]))
                break
        elif kind == "fn_exit":
            bodies.get(session_of.get(d, (node, 0)), set()).discard(d)
    if A == 1 and fail_seq is None:
        for node, ent in order_enter.items():
            tk = [d for d in order_take.get(node, []) if d in set(ent)]
            if ent != tk:
                out.append(Violation("C03/serial-order", f"with max_async_tasks=1 worker {node} processed deliveries in order {ent[:8]} but took them in order {tk[:8]}"))
    probe = script.get("probe")
    if probe and not out:
        ps = [e for e in h.kind("probe_settled")]
        idle = bool(ps and ps[0][5]["idle"])
        if fail_seq is not None:
            # messages that sat in the failed receiver's hand-over queue are gone with it; progress is judged on the probe messages
            pd = [t[4] for t in h.takes() if str(t[5]["k"]).startswith("p")]
            idle = bool(pd) and len(pd) == probe["n"] and all(h.first(x, "cb_exit") is not None for x in pd)
        if not idle:
            out.append(Violation("C03/no-progress-after-history", "saturation probe: the worker did not finish all probe messages after faults stopped (bounded liveness)"))
        elif cfg["workers"] == 1:
            n = probe["n"]
            want = min(n, A) if A else n
            got = max(peak_probe.values(), default=0)
            if got < want:
                out.append(Violation("C03/slot-leak", f"saturation probe of {n} long tasks reached only {got} concurrent executions, expected {want} (max_async_tasks={A})",
                                     got=got, want=want))
    return out


def probes(script: dict, run: Any) -> Dict[str, int]:
    h = Hist(run)
    res = {"probe_ran": int(bool(h.kind("probe_start"))), "hook_raised": int(run.fault_counts.get("hook_raise", 0) > 0),
           "callback_raised": int(any(e[5].get("how") != "ok" for e in h.kind("cb_exit"))),
           "timeout_fired": int(any(e[5].get("how") == "cancelled" for e in h.kind("fn_exit"))),
           "limit_reached": 0, "api_entry_reconnected_after_listen_failure": int(bool(h.kind("listen_fail"))),
           "cli_entry_with_probe": int(script["config"].get("entry") == "cli" and bool(h.kind("probe_start")))}
    A = script["config"].get("A")
    if A:
        live = 0
        for e in h.events:
            if e[3] == "cb_enter":
                live += 1
                if live >= A:
                    res["limit_reached"] = 1
            elif e[3] == "cb_exit":
                live -= 1
    return res


def nontrivial(script: dict, run: Any) -> bool:
    return default_nontrivial(script, run)

"""C08 — arguments reach the task function unchanged and bound to the right parameters.

Weak fit for simulation (see DESIGN.md section 5): nothing here depends on a schedule or a
clock; the simulator is the carrier (real kicker -> formatter/serializer -> simulated broker ->
real receiver -> parse_params -> call) and the deciding power is the seeded generation of
signatures, argument splits and values. What simulation adds is redelivery histories: the
same message executed again after a retry or a requeue must bind the same way.
"""
from __future__ import annotations

import dataclasses
import inspect
import json
from typing import Any, Dict, List, Optional

import pydantic
from pydantic import BaseModel, TypeAdapter

from sim.gen_worker import gen_worker_script, tier_knobs
from sim.rng import stream
from sim.worker_world import DELIVERY, SOURCE_NS, EXC
from sim.worker_world import simulate as _simulate
from taskiq import Context, TaskiqDepends
from taskiq.exceptions import NoResultError
from ._wcommon import (ASSUMPTIONS, COMPONENTS_REAL, COMPONENTS_STUB, Hist, Violation, default_nontrivial,  # noqa: F401
                       simplifications)

from ._wcommon import abstract_states  # noqa: F401,E402

ID = "C08"
RUNS = {"quick": 8000, "thorough": 200000}
BUDGET_S = {"quick": 60, "thorough": 900}
RULE = ("seeded task signatures (positional / keyword-only / defaulted / un-annotated / Any / annotated int, float, str, bool, List[int], "
        "Dict[str,int], Optional[int], pydantic model, dataclass / dependency parameters in any legal order), argument splits into "
        "positional/keyword and JSON values (convertible, non-convertible, None), both validate_params settings, JSON and pickle "
        "serializers, both formatters, each message followed by 0..2 retries / requeues; non-trivial = a conversion or a redelivery "
        "happened; distinct = distinct (signature, binding, values) scenario hash")


class Pt(BaseModel):
    x: int
    y: str = "d"


# a different model whose str() equals str(Pt) (same module and qualified name), as two same-named classes of two modules' Enums
# or factory-made models have: an annotation cache keyed by the printed name would confuse them
PtB = pydantic.create_model("Pt", z=(int, ...), w=(str, "w"), __module__=Pt.__module__)
PtB.__qualname__ = Pt.__qualname__


@dataclasses.dataclass
class DC:
    a: int
    b: str = "z"


ANNOTS = {
    "none": None, "Any": "Any", "int": "int", "float": "float", "str": "str", "bool": "bool", "List[int]": "List[int]",
    "Dict[str, int]": "Dict[str, int]", "Optional[int]": "Optional[int]", "Pt": "Pt", "DC": "DC", "PtB": "PtB",
}
TYPES = {"Any": Any, "int": int, "float": float, "str": str, "bool": bool, "List[int]": List[int], "Dict[str, int]": Dict[str, int],
         "Optional[int]": Optional[int], "Pt": Pt, "DC": DC, "PtB": PtB}
VALUES = {
    "int": [5, "11", "abc", 3.0, 3.5, None, True, [1], "-7", 0],
    "float": [1.5, "2.5", "x", 3, None, "1e3"],
    "str": ["s", 5, "", None, "7", ["a"]],
    "bool": [True, False, "true", "yes", 0, 1, 2, "2", None],
    "List[int]": [[1, "2"], ["a"], "notalist", [], None, [1.0, 2]],
    "Dict[str, int]": [{"a": "1"}, {"a": "x"}, {}, None, [1]],
    "Optional[int]": [None, "4", 4, "q"],
    "Pt": [["Pt", {"x": 1, "y": "k"}], ["Pt", {"x": 7}], {"x": "3"}, {"y": 1}, 5, None, {"x": 2, "y": "w", "extra": 1}],
    "DC": [["DC", {"a": 1, "b": "k"}], {"a": "3"}, {"b": "only"}, 5, None],
    "PtB": [{"z": "4"}, {"z": 1, "w": "q"}, {"x": 1}, None, 7],
    "free": [1, "x", 2.5, None, True, [1, "a", None], {"k": [1, 2]}, "11", {"x": 1}, ["Pt", {"x": 9, "y": "m"}], ["Pt", {"x": 8}], ["DC", {"a": 4, "b": "n"}], ["DC", {"a": 6}], []],
}


def enc(v: Any) -> Any:
    if isinstance(v, PtB):
        return ["<PtB>", v.model_dump()]
    if isinstance(v, BaseModel):
        return ["<Pt>", v.model_dump()]
    if dataclasses.is_dataclass(v) and not isinstance(v, type):
        return ["<DC>", dataclasses.asdict(v)]
    if isinstance(v, bool):
        return ["bool", v]
    if isinstance(v, (int, float, str)) or v is None:
        return [type(v).__name__, v]
    if isinstance(v, (list, tuple)):
        return [type(v).__name__, [enc(x) for x in v]]
    if isinstance(v, dict):
        return ["dict", {str(k): enc(x) for k, x in v.items()}]
    return [type(v).__name__, repr(v)]


def c08_record(loc: dict) -> Any:
    world = loc.pop("__world__")
    d = DELIVERY.get()
    beh = world.behaviour(d) if d is not None else {}
    recv = {k: enc(v) for k, v in loc.items() if k not in ("ctx", "k") and not k.startswith("__")}
    ctx = loc.get("ctx")
    world.rec("fn_enter", d, attempt=world.attempt_of.get(d), received=recv, k=loc.get("k"),
              seen=None if ctx is None else {"tid": ctx.message.task_id, "args": None, "labels": {}})
    return d, beh


async def c08_finish(world: Any, d: Any, beh: dict, ctx: Any) -> Any:
    out = beh.get("out", ["ret"])
    try:
        if out[0] == "exc":
            raise EXC[out[1]](f"boom-{d}")
        if out[0] == "requeue" and ctx is not None:
            world.fired("requeue")
            await ctx.requeue()
        return f"ret-d{d}"
    finally:
        world.rec("fn_exit", d, how=out[0])


def dep0() -> int:
    return 77


SOURCE_NS.update({"Any": Any, "List": List, "Dict": Dict, "Optional": Optional, "Pt": Pt, "DC": DC, "PtB": PtB, "Context": Context,
                  "TaskiqDepends": TaskiqDepends, "c08_record": c08_record, "c08_finish": c08_finish, "dep0": dep0})

KNOBS = {
    "n_msgs": (1, 5), "N": [None], "W": [None], "p_stop": 0.0, "p_faults": 0.0, "p_timeout": 0.0, "p_sync": 0.0, "p_deps": 0.0,
    "middlewares": (0, 1), "p_mw_replace": 0.0, "A": [None, 1, 4], "workers": [1], "p_ack_delay": 0.0, "p_save_delay": 0.0, "p_kick_delay": 0.1,
}


def gen_signature(r: Any, idx: int) -> dict:
    """Parameters after the leading `k: int`."""
    n_pos = r.randint(0, 4)
    n_kw = r.randint(0, 3)
    params = []
    seen_default = False
    dep_at = r.choice([None, None, "pos", "kw", "kw"])
    for i in range(n_pos):
        an = r.choice(list(ANNOTS))
        has_default = seen_default or r.random() < 0.25
        seen_default = seen_default or has_default
        params.append({"name": f"p{i}", "kind": "pos", "annot": an, "default": has_default})
        if dep_at == "pos" and r.random() < 0.4:
            dep_at = None
            seen_default = True
            params.append({"name": "ctx", "kind": "pos", "annot": "Context", "dep": True})
    for i in range(n_kw):
        an = r.choice(list(ANNOTS))
        params.append({"name": f"q{i}", "kind": "kw", "annot": an, "default": r.random() < 0.4})
    if dep_at is not None:
        params.append({"name": "ctx", "kind": "kw", "annot": "Context", "dep": True})
    if r.random() < 0.3:
        params.append({"name": "dep0", "kind": "kw", "annot": "int", "dep": "dep0"})
    return {"params": params}


DEFAULTS = {"none": "'dflt'", "Any": "None", "int": "-1", "float": "-1.5", "str": "'dflt'", "bool": "False", "List[int]": "None",
            "Dict[str, int]": "None", "Optional[int]": "None", "Pt": "None", "DC": "None", "PtB": "None"}


def source_for(name: str, sig: dict) -> str:
    parts = ["k: int"]
    star = False
    for p in sig["params"]:
        if p["kind"] == "kw" and not star:
            parts.append("*")
            star = True
        if p.get("dep") is True:
            parts.append("ctx: Context = TaskiqDepends()")
        elif p.get("dep"):
            parts.append(f"{p['name']}: int = TaskiqDepends({p['dep']})")
        else:
            a = ANNOTS[p["annot"]]
            txt = p["name"] + (f": {a}" if a else "")
            if p["default"]:
                txt += (" = " if a else "=") + DEFAULTS[p["annot"]]
            parts.append(txt)
    has_ctx = any(p["name"] == "ctx" for p in sig["params"])
    body = (f"async def {name}({', '.join(parts)}):\n"
            f"    __world__ = world\n"
            f"    _d, _beh = c08_record(dict(locals()))\n"
            f"    return await c08_finish(world, _d, _beh, {'ctx' if has_ctx else 'None'})\n")
    return body


def gen(rs: int, tier: str, index: int) -> dict:
    r = stream(rs, "c08")
    kn = dict(KNOBS)
    use_retry = r.random() < 0.5
    if use_retry:
        kn["retry"] = {"count": 3, "label": True, "no_result_on_retry": r.random() < 0.5}
    s = gen_worker_script(rs, tier_knobs(kn, tier, index))
    tasks = []
    for ti in range(r.randint(1, 2)):
        sig = gen_signature(r, ti)
        name = f"c08_{ti}"
        late = r.random() < 0.4
        # (a same-name shared task is declared only next to tasks that exist before the Receiver does: the Receiver caches signature
        # and dependency graph per task *name*, so a name that first resolves to the shared task and later to a local one is served
        # with the stale signature - seen, outside C08's quantifier, see DESIGN.md 15.6)
        tasks.append({"name": name, "func": name, "source": source_for(name, sig), "sig": sig, "register_late": late,
                      "decoy_shared": (not late) and r.random() < 0.3})
    tasks.append({"name": "ghost", "client_only": True, "ctx": False, "sync": False, "deps": [], "root": []})
    s["tasks"] = tasks
    for m in s["messages"]:
        m["kind"] = "valid"
        m.pop("raw_b64", None)
        m.pop("task_name", None)
        m.pop("timeout", None)
        m.pop("pool_delay_us", None)
        m.pop("save", None)
        ti = r.randrange(len(tasks) - 1)
        m["task"] = ti
        sig = tasks[ti]["sig"]
        pos = [p for p in sig["params"] if p["kind"] == "pos" and not p.get("dep")]
        # positional prefix stops at the first dependency parameter among positionals
        prefix = []
        for p in sig["params"]:
            if p["kind"] != "pos":
                break
            if p.get("dep"):
                break
            prefix.append(p)
        n_posargs = r.randint(0, len(prefix))
        args = []
        kwargs = {}
        for i, p in enumerate([p for p in sig["params"] if not p.get("dep")]):
            pool = VALUES.get(p["annot"], VALUES["free"]) if p["annot"] not in ("none", "Any") else VALUES["free"]
            if r.random() < 0.25:
                pool = VALUES["free"]
            v = r.choice(pool)
            if p["kind"] == "pos" and p in prefix and prefix.index(p) < n_posargs:
                args.append(v)
            elif p.get("default") and r.random() < 0.5:
                continue
            else:
                kwargs[p["name"]] = v
        if any(p["name"] == "dep0" for p in sig["params"]) and r.random() < 0.4:
            kwargs["dep0"] = r.choice([7, "55", 0, "x"])      # the caller binds a value to a dependency parameter explicitly
        m["args"] = args
        m["kwargs"] = kwargs
        has_ctx = any(p["name"] == "ctx" for p in sig["params"])
        n = r.choice([1, 1, 2, 3])
        atts = []
        for i in range(n):
            if i == n - 1:
                atts.append({"steps": [0], "out": ["ret"]})
            elif use_retry and r.random() < 0.6:
                atts.append({"steps": [0], "out": ["exc", "ValueError"]})
            elif has_ctx:
                atts.append({"steps": [0], "out": ["requeue"]})
            else:
                atts.append({"steps": [0], "out": ["ret"]})
                break
        m["attempts"] = atts
        if use_retry:
            m["labels"] = {"retry_on_error": ["bool", True]}
    from ._wcommon import maybe_cli_entry
    maybe_cli_entry(s, index, 7, 3)
    return s


def materialise(v: Any) -> Any:
    """script value -> the object the caller passes."""
    if isinstance(v, list) and len(v) == 2 and v[0] == "Pt" and isinstance(v[1], dict):
        return Pt(**v[1])
    if isinstance(v, list) and len(v) == 2 and v[0] == "DC" and isinstance(v[1], dict):
        return DC(**v[1])
    return v


def dict_form(v: Any) -> Any:
    if isinstance(v, BaseModel):
        return v.model_dump(mode="json")
    if dataclasses.is_dataclass(v) and not isinstance(v, type):
        return dataclasses.asdict(v)
    return v


async def _client_fn(world: Any, client: Any) -> None:
    # formatter / serializer round trips of every prepared message (pure, no schedule involved)
    from taskiq.formatters.json_formatter import JSONFormatter
    from taskiq.formatters.proxy_formatter import ProxyFormatter
    from taskiq.serializers.json_serializer import JSONSerializer
    from taskiq.serializers.pickle import PickleSerializer
    script = world.script
    for m in script["messages"]:
        task = client.find_task(script["tasks"][m["task"]]["name"])
        kicker = task.kicker().with_labels(a=1, b=b"\xff", c=1.5, d=True, e="s").with_task_id(f"rt{m['k']}")
        msg = kicker._prepare_message(m["k"], *[materialise(a) for a in m["args"]], **{n: materialise(v) for n, v in m["kwargs"].items()})
        for fname, ser in (("proxy", JSONSerializer()), ("proxy", PickleSerializer()), ("json", None)):
            old = client.serializer
            try:
                if ser is not None:
                    client.serializer = ser
                fmt = ProxyFormatter(client) if fname == "proxy" else JSONFormatter()
                back = fmt.loads(fmt.dumps(msg).message)
                ok = back == msg
                world.rec("roundtrip", None, k=m["k"], formatter=fname, serializer=type(ser).__name__ if ser else None, ok=ok,
                          diff=None if ok else [repr(msg)[:300], repr(back)[:300]])
            except Exception as exc:  # noqa: BLE001
                world.rec("roundtrip", None, k=m["k"], formatter=fname, serializer=type(ser).__name__ if ser else None, ok=False,
                          diff=[type(exc).__name__, str(exc)[:200]])
            finally:
                client.serializer = old


def simulate(script: dict) -> Any:
    # script values that stand for model / dataclass instances are materialised at send time
    s2 = json.loads(json.dumps(script))
    run = _simulate(_materialised(s2), _client_fn)
    run.script = script
    return run


class _Lazy(dict):
    pass


def _materialised(script: dict) -> dict:
    for m in script["messages"]:
        m["args"] = [materialise(a) for a in m.get("args", [])]
        m["kwargs"] = {n: materialise(v) for n, v in (m.get("kwargs") or {}).items()}
    return script


def reference(script: dict, m: dict) -> Optional[Dict[str, Any]]:
    """Independent binding: inspect.signature(f).bind on the caller's values (dict form)."""
    ts = script["tasks"][m["task"]]
    ns: Dict[str, Any] = {"world": None}
    ns.update(SOURCE_NS)
    exec(compile(ts["source"], "<ref>", "exec"), ns)  # noqa: S102
    fn = ns[ts["func"]]
    sig = inspect.signature(fn)
    args = [m["k"]] + [dict_form(materialise(a)) for a in m["args"]]
    kwargs = {n: dict_form(materialise(v)) for n, v in m["kwargs"].items()}
    try:
        ba = sig.bind_partial(*args, **kwargs)
    except TypeError:
        return None
    validate = script["config"].get("validate_params", True)
    out: Dict[str, Any] = {}
    annots = {p["name"]: p["annot"] for p in ts["sig"]["params"] if not p.get("dep")}
    annots["dep0"] = "int"
    for name, p in sig.parameters.items():
        if name in ("k", "ctx"):
            continue
        if name == "dep0" and name not in ba.arguments:
            out[name] = enc(77)          # resolved by the dependency
            continue
        if name in ba.arguments:
            v = json.loads(json.dumps(ba.arguments[name]))   # what survives the wire
            an = annots.get(name)
            if validate and an not in (None, "none") and v is not None:
                try:
                    v = TypeAdapter(TYPES[an]).validate_python(v)
                except Exception:  # noqa: BLE001
                    pass
            out[name] = enc(v)
        else:
            if p.default is inspect.Parameter.empty:
                return None   # the call itself is invalid (missing argument): not judged
            out[name] = enc(p.default)
    return out


def oracle(script: dict, run: Any) -> List[Violation]:
    h = Hist(run)
    out: List[Violation] = []
    for e in h.kind("roundtrip"):
        if not e[5]["ok"]:
            out.append(Violation("C08/formatter-roundtrip", f"message {e[5]['k']}: loads(dumps(m)) != m with formatter {e[5]['formatter']} serializer {e[5]['serializer']}: {e[5]['diff']}"))
    st = h.kind("settled")
    if not st or not st[0][5]["idle"]:
        out.append(Violation("C08/not-settled", "the run did not settle although no fault was injected"))
        return out
    for m in script["messages"]:
        ref = reference(script, m)
        if ref is None:
            continue
        k = m["k"]
        enters = [e for e in h.kind("fn_enter") if e[5].get("k") == k]
        if not enters:
            out.append(Violation("C08/not-executed", f"message {k}: the function was never called (args {m['args']} kwargs {m['kwargs']}; signature {script['tasks'][m['task']]['source'].splitlines()[0]})", k=k))
            continue
        for e in enters:
            if e[5]["received"] != ref:
                diff = {n: (ref.get(n), e[5]["received"].get(n)) for n in set(ref) | set(e[5]["received"]) if ref.get(n) != e[5]["received"].get(n)}
                sub = "" if not e[5]["attempt"] else "@redelivery"
                out.append(Violation(f"C08/wrong-binding{sub}", f"message {k} attempt {e[5]['attempt']}: parameters (expected, received) {diff}; "
                                     f"signature {script['tasks'][m['task']]['source'].splitlines()[0]} called with args {m['args']} kwargs {m['kwargs']} "
                                     f"validate_params={script['config'].get('validate_params', True)}", k=k))
                break
    return out


def probes(script: dict, run: Any) -> Dict[str, int]:
    h = Hist(run)
    res = {"conversion_happened": 0, "unconvertible_left_unchanged": 0, "unannotated_before_annotated": 0, "redelivered": 0,
           "model_or_dataclass_arg": 0, "validate_off": int(not script["config"].get("validate_params", True)),
           "validate_off_and_task_registered_after_receiver": int(not script["config"].get("validate_params", True) and any(t.get("register_late") for t in script["tasks"])), "keyword_only_param": 0,
           "explicit_value_for_dependency_param": int(any("dep0" in m["kwargs"] for m in script["messages"]))}
    for t in script["tasks"]:
        if "sig" not in t:
            continue
        ps = [p for p in t["sig"]["params"] if not p.get("dep")]
        for i, p in enumerate(ps):
            if p["annot"] not in ("none",) and any(q["annot"] == "none" for q in ps[:i]):
                res["unannotated_before_annotated"] = 1
            if p["kind"] == "kw":
                res["keyword_only_param"] = 1
    for e in h.kind("fn_enter"):
        if e[5].get("attempt"):
            res["redelivered"] = 1
        for n, v in (e[5].get("received") or {}).items():
            if v[0] in ("<Pt>", "<DC>"):
                res["model_or_dataclass_arg"] = 1
    for m in script["messages"]:
        ts = script["tasks"][m["task"]]
        annots = {p["name"]: p["annot"] for p in ts["sig"]["params"] if not p.get("dep")}
        ref = reference(script, m)
        if ref is None:
            continue
        names = [p["name"] for p in ts["sig"]["params"] if not p.get("dep") and p["kind"] == "pos"]
        sent = dict(zip(names, m["args"]))
        sent.update(m["kwargs"])
        for n, v in sent.items():
            if annots.get(n) not in (None, "none", "Any") and v is not None and n in ref:
                if ref[n] != enc(dict_form(materialise(v))):
                    res["conversion_happened"] = 1
                else:
                    res["unconvertible_left_unchanged"] = 1
    return res


def nontrivial(script: dict, run: Any) -> bool:
    p = probes(script, run)
    return bool(p["conversion_happened"] or p["redelivered"])


def signature(run: Any) -> int:
    import hashlib
    s = run.script
    hsh = hashlib.blake2b(digest_size=8)
    hsh.update(json.dumps([[t.get("source") for t in s["tasks"]], [[m["task"], m["args"], m["kwargs"], m["attempts"]] for m in s["messages"]],
                           s["config"].get("validate_params"), s["config"].get("serializer"), s["config"].get("formatter")], sort_keys=True, default=repr).encode())
    return int.from_bytes(hsh.digest(), "big")

"""C14 — a one-shot schedule is never sent early and at most one second late."""
from __future__ import annotations

import hashlib
import json
from typing import Any, Dict, List

from sim.cronref import c14_expect, from_us
from sim.gen_sched import TIME_REPRS, gen_sched_script, gen_start
from sim.rng import stream
from sim.sched_world import SRun, _to_us, call_get_task_delay, make_time
from sim.sched_world import simulate as _simulate
from taskiq.scheduler.scheduled_task import ScheduledTask
from ._scommon import ASSUMPTIONS, COMPONENTS_REAL, COMPONENTS_STUB, Violation, simplifications  # noqa: F401

ID = "C14"
RUNS = {"quick": 6000, "thorough": 120000}
BUDGET_S = {"quick": 90, "thorough": 900}
CHUNK = 32
LIST_KEYS = ("cases",)
RULE = ("two drivers under the simulated wall clock. sweep (2/3 of runs): 300 (now, T) cases per run, now at microsecond resolution "
        "(every second of the minute; :59.999999, :00.000000, :00.000001), T - now from -2 d to +2 d with dense sampling around 0, around "
        "the horizon (next minute + 1 s) and at microsecond remainders, T naive (= UTC) or aware in fixed offsets / pytz / zoneinfo zones; "
        "in situ (1/3): every get_task_delay call for a time schedule made by the simulated scheduler loop. non-trivial = a case with "
        "0 < T - now <= 61 s; distinct = distinct (now, T, representation) triples")


DST_ZONES = ["Europe/Berlin", "America/New_York", "Australia/Lord_Howe", "Australia/Adelaide", "Pacific/Auckland", "America/St_Johns",
             "Europe/London", "America/Sao_Paulo", "Pacific/Chatham"]
_TRANS: dict = {}


def transitions(zone: str, year: int) -> list:
    """UTC instants (us) at which the zone's offset changes in that year (hour resolution is enough)."""
    key = (zone, year)
    if key not in _TRANS:
        from datetime import datetime, timedelta, timezone
        from zoneinfo import ZoneInfo
        z = ZoneInfo(zone)
        out = []
        t = datetime(year, 1, 1, tzinfo=timezone.utc)
        prev = t.astimezone(z).utcoffset()
        for _ in range(366 * 48):
            t += timedelta(minutes=30)
            off = t.astimezone(z).utcoffset()
            if off != prev:
                out.append(int(t.timestamp()) * 1_000_000)
            prev = off
        _TRANS[key] = out
    return _TRANS[key]


def gen_dst_case(r: Any) -> dict:
    """now and T both inside the hours around a DST transition, T given in that zone (zoneinfo or pytz) or with an odd-second offset."""
    zone = r.choice(DST_ZONES)
    tr = transitions(zone, r.randint(2016, 2034))
    base = r.choice(tr) if tr else 1_700_000_000_000_000
    now = base + r.randint(-2 * 3_600_000_000, 2 * 3_600_000_000)
    c = r.randint(0, 3)
    if c == 0:
        t = now + r.randint(-3_600_000_000, 3_600_000_000)
    elif c == 1:
        t = now + r.randint(1, 61_000_000)
    elif c == 2:
        t = now - r.randint(0, 3_600_000_000)
    else:
        t = now + r.randint(61_000_000, 2 * 3_600_000_000)
    return {"now_us": now, "t": {"us": t, "repr": r.choice([f"zi:{zone}", f"zi:{zone}", f"pytz:{zone}"])}, "dst": True}


def gen_fold_pair(r: Any) -> list:
    """Two targets with the same wall-clock reading in a zoneinfo zone, one hour apart as instants (the repeated hour when DST
    ends: fold=0 and fold=1), evaluated one after the other in the same process against the same now."""
    from datetime import datetime, timezone
    from zoneinfo import ZoneInfo
    zone = r.choice(DST_ZONES)
    z = ZoneInfo(zone)
    tr = transitions(zone, r.randint(2016, 2034))
    back = [u for u in tr if datetime.fromtimestamp(u / 1e6, timezone.utc).astimezone(z).utcoffset()
            < datetime.fromtimestamp(u / 1e6 - 1800, timezone.utc).astimezone(z).utcoffset()]
    if not back:
        return [gen_dst_case(r)]
    u = r.choice(back)                      # first instant after the clocks went back
    shift = int((datetime.fromtimestamp(u / 1e6 - 1800, timezone.utc).astimezone(z).utcoffset()
                 - datetime.fromtimestamp(u / 1e6, timezone.utc).astimezone(z).utcoffset()).total_seconds()) * 1_000_000
    t2 = u + r.randint(0, shift - 1)        # second occurrence of the wall time (fold=1)
    t1 = t2 - shift                         # first occurrence (fold=0)
    now = r.choice([t1, t2]) - r.choice([r.randint(1, 61_000_000), r.randint(1, 61_000_000), -5_000_000, r.randint(0, 2 * shift)])
    pair = [{"now_us": now, "t": {"us": t1, "repr": f"zi:{zone}"}, "dst": True, "fold_pair": True},
            {"now_us": now, "t": {"us": t2, "repr": f"zi:{zone}"}, "dst": True, "fold_pair": True}]
    if r.random() < 0.5:
        pair.reverse()
    return pair


def gen_case(r: Any, base: int) -> Any:
    if r.random() < 0.15:
        return gen_dst_case(r) if r.random() < 0.7 else gen_fold_pair(r)
    c = r.randint(0, 7)
    if c == 0:
        now = base - base % 60_000_000 + r.choice([0, 1, 59_999_999, 59_000_000, 999_999, 1_000_000])
    else:
        now = base + r.randint(-3_600_000_000, 3_600_000_000)
    minute = now - now % 60_000_000
    horizon = minute + 61_000_000
    c = r.randint(0, 9)
    if c == 0:
        t = now + r.choice([0, -1, 1, -1_000_000, 1_000_000, 999_999, 1_000_001, 500_000])
    elif c == 1:
        t = horizon + r.choice([0, -1, 1, -1_000_000, 1_000_000, -999_999, 999_999])
    elif c == 2:
        t = now + r.randint(1, 61) * 1_000_000 + r.choice([0, 0, 1, -1, 999_999])
    elif c == 3:
        t = minute + 60_000_000 + r.choice([0, 1, -1, 500_000, 1_000_000, 999_999])
    elif c == 4:
        t = now + r.randint(-2 * 86400, 2 * 86400) * 1_000_000 + r.randint(0, 999_999)
    elif c == 5:
        t = now - r.randint(0, 3_000_000)
    elif c == 6:
        t = now + r.choice([1, 1, 2]) * 86_400_000_000 + r.randint(0, 61_000_000)     # whole days plus a little: must be left for a later poll
    else:
        t = now + r.randint(0, 70_000_000)
    return {"now_us": now, "t": {"us": t, "repr": r.choice(TIME_REPRS + ["fixeds:30", "fixeds:-3599", "fixeds:20700"])}}


def gen(rs: int, tier: str, index: int) -> dict:
    r = stream(rs, "c14")
    if index % 3 == 2:
        s = gen_sched_script(rs, {"p_oneshot": 0.9, "horizon_min": (3, 12), "p_faults": 0.3})
        s["mode"] = "insitu"
        return s
    base = gen_start(r)
    cases: list = []
    for _ in range(300):
        c = gen_case(r, base)
        cases.extend(c if isinstance(c, list) else [c])
    return {"world": "sched", "mode": "sweep", "run_seed": rs, "cases": cases,
            "tz": r.choice(["UTC", "Etc/GMT-3", "Etc/GMT+7", "Asia/Kathmandu", "Asia/Tokyo", "America/Phoenix"])}


def simulate(script: dict) -> Any:
    if script["mode"] == "insitu":
        return _simulate(script)
    run = SRun()
    run.script = script
    ev = []
    for c in script["cases"]:
        task = ScheduledTask(task_name="t", labels={}, args=[], kwargs={}, schedule_id="s", time=make_time(c["t"]))
        try:
            res: Any = call_get_task_delay(task, c["now_us"], script.get("tz", "UTC"))
        except Exception as exc:  # noqa: BLE001
            res = "raise:" + type(exc).__name__
        ev.append([len(ev), 0, c["now_us"], "delay", {"res": res if res is None or isinstance(res, str) else [type(res).__name__, res], "t": c["t"]}])
    run.events = ev
    run.end = "done"
    return run


def judge(now_us: int, t_us: int, res: Any, where: str) -> Any:
    kind, val = c14_expect(now_us, t_us)
    desc = f"{where}: now={from_us(now_us).isoformat()} T={from_us(t_us).isoformat()} (T-now={t_us - now_us}us) -> {res!r}"
    if kind == "zero":
        if res != ["int", 0]:
            return Violation("C14/past-not-immediate", desc + ", expected 0 (T <= now)")
    elif kind == "none":
        if res is not None:
            return Violation("C14/too-far-but-scheduled", desc + ", expected None (T is more than 1 s past the next minute boundary)")
    else:
        lo, hi = val
        if res is None:
            return Violation("C14/due-soon-but-skipped", desc + f", expected a delay of {lo} s")
        if not (isinstance(res, list) and res[0] == "int"):
            return Violation("C14/not-whole-seconds", desc + ", expected a whole number of seconds")
        d = res[1]
        if now_us + d * 1_000_000 < t_us:
            return Violation("C14/early", desc + f": now+d is {t_us - now_us - d * 1_000_000}us before T")
        if now_us + d * 1_000_000 >= t_us + 1_000_000:
            return Violation("C14/late", desc + f": now+d is {now_us + d * 1_000_000 - t_us}us after T (>= 1 s)")
    return None


def oracle(script: dict, run: Any) -> List[Violation]:
    out: List[Violation] = []
    if script["mode"] == "sweep":
        for e in run.events:
            v = judge(e[2], e[4]["t"]["us"], e[4]["res"], f"T as {e[4]['t']['repr']}")
            if v is not None:
                out.append(v)
                break
        return out
    for now_us, task, res, _sq in run.delay_log:
        if task.time is None or task.cron is not None:
            continue
        r2 = res if res is None or isinstance(res, tuple) else [type(res).__name__, res]
        if isinstance(res, tuple):
            r2 = "raise:" + res[1]
        v = judge(now_us, _to_us(task.time), r2, "in loop")
        if v is not None:
            out.append(v)
            break
    return out


def probes(script: dict, run: Any) -> Dict[str, int]:
    res = {"within_window": 0, "exact_second_remainder": 0, "at_horizon": 0, "past": 0, "aware_zone": 0, "insitu_calls": 0, "now_on_boundary": 0, "dst_fold_window": 0, "odd_second_offset": 0, "host_zone_not_utc": int(script.get("tz", script.get("start", {}).get("tz", "UTC")) != "UTC")}
    if script["mode"] == "sweep":
        for c in script["cases"]:
            d = c["t"]["us"] - c["now_us"]
            minute = c["now_us"] - c["now_us"] % 60_000_000
            if 0 < d <= 61_000_000:
                res["within_window"] = 1
                if d % 1_000_000 == 0:
                    res["exact_second_remainder"] = 1
            if abs(c["t"]["us"] - (minute + 61_000_000)) <= 1:
                res["at_horizon"] = 1
            if d <= 0:
                res["past"] = 1
            if c["t"]["repr"] not in ("naive", "utc"):
                res["aware_zone"] = 1
            if c["now_us"] % 60_000_000 in (0, 1, 59_999_999):
                res["now_on_boundary"] = 1
            if c["t"]["repr"].startswith("fixeds:"):
                res["odd_second_offset"] = 1
            if c.get("dst"):
                res["dst_fold_window"] = 1
    else:
        res["insitu_calls"] = int(any(t.time is not None for _, t, _, _ in run.delay_log))
    return res


def nontrivial(script: dict, run: Any) -> bool:
    if script["mode"] == "sweep":
        return any(0 < c["t"]["us"] - c["now_us"] <= 61_000_000 for c in script["cases"])
    return any(t.time is not None and isinstance(r, int) and r > 0 for _, t, r, _ in run.delay_log)


def signature(run: Any) -> int:
    s = run.script
    key = [s.get("cases") and s["cases"][:5], s.get("run_seed")]
    return int.from_bytes(hashlib.blake2b(json.dumps(key).encode(), digest_size=8).digest(), "big")

import sys
pid=sys.argv[1]
prop=open(f"/tmp/prop_{pid}.txt").read()
wt=f"/tmp/seed_{pid}"
print(f"""You are helping to evaluate a verification tool by planting ONE realistic bug in a Python library (taskiq, an asyncio distributed task-queue framework).

Work ONLY inside the git worktree {wt} (a full checkout of the library; source in {wt}/taskiq, tests in {wt}/tests). Do NOT read, list or write anything under /verif or /repo, and do not look for other copies of the project elsewhere on disk - your change must be independent of any existing checker.

The semantic property to break:

{prop}
Your task: make a source change under {wt}/taskiq that BREAKS this property, while
  * the code still imports/compiles, and
  * the existing test suite still passes unchanged:  cd {wt} && PYTHONPATH={wt} /venv/bin/python -m pytest -q -p no:cacheprovider --timeout=900 --continue-on-collection-errors   (expected on the unchanged tree: 146 passed, 2 collection errors that are pre-existing and unrelated; you must get the same with your change; check that `PYTHONPATH={wt} /venv/bin/python -c "import taskiq; print(taskiq.__file__)"` prints a path under {wt}).
The breakage must need something SPECIFIC to manifest - a particular interleaving of concurrent work, a crash/fault/failure at a particular point, a multi-step sequence of operations, an unusual (but legal) input or configuration, or two cooperating sites that each look fine alone. It must NOT be something ordinary use or a trivial smoke test would expose at once. Make it look like a plausible refactoring / optimisation / "cleanup" mistake a real developer could make (no comments that give it away, no dead giveaway names). Keep it small (a few lines, one or two sites). Do not touch the tests.

Deliver, in the directory {wt}/_seed/ :
  1. patch.diff  - output of `git -C {wt} diff -- taskiq` (the change only).
  2. demo.py     - a standalone demonstration program, run as  PYTHONPATH={wt} /venv/bin/python {wt}/_seed/demo.py . It must exit 0 (printing OK) on the UNCHANGED tree and exit non-zero (printing what went wrong) WITH your change. It must be deterministic (control ordering explicitly with asyncio events/futures/sleeps or fake objects; no network; no reliance on wall-clock races; finish within ~20 s) and use the library's public API / documented extension points (custom AsyncBroker / result backend / ScheduleSource subclasses, fake process objects etc. are fine).
  3. notes.md    - 5-15 lines: what the change does, which part of the property it breaks, and exactly what it needs in order to manifest.
Verify BOTH states yourself: with the change applied, demo.py fails and the pytest command above still gives 146 passed; with the change reverted (`git -C {wt} stash` then `git -C {wt} stash pop`), demo.py passes. Leave the worktree with the change APPLIED. In your final answer report: the diff, the pytest summary line with the change, and the demo output in both states.""")

#!/bin/bash
# usage: tools/import_seed.sh <seed id> <worktree> <property> "<checks space separated>" "<needs>"
set -e
id=$1; wt=$2; prop=$3; checks=$4; needs=$5
d=/verif/seeded/$id
mkdir -p $d
git -C $wt diff -- taskiq > $d/patch.diff
cp $wt/_seed/demo.py $d/demo.py
cp $wt/_seed/notes.md $d/notes.md 2>/dev/null || true
/venv/bin/python - "$id" "$prop" "$checks" "$needs" <<'PY'
import json,sys
id,prop,checks,needs=sys.argv[1:5]
json.dump({"id":id,"breaks_property":prop,"checks":checks.split(),"needs_to_manifest":needs,"demo":"demo.py",
 "origin":"written by a fresh sub-agent that was given only the property text and a scratch worktree (nothing from /verif)",
 "confirmed":"tools/seeded.py --pytest "+id+": demo exits 0 without / non-zero with the patch, repository test suite still 146 passed with the patch, checks run against a scratch worktree with the patch applied"},
 open(f"/verif/seeded/{id}/meta.json","w"),indent=1)
PY
echo imported $id

#!/bin/bash
# usage: tools/import_batch.sh <prefix letter> <worktree prefix e.g. /tmp/seed4_> <props...>
# imports finished sub-agent worktrees as seeded/<prefix><nn>-<prop>/ (needs_to_manifest = head of the agent's notes.md)
pre=$1; wtp=$2; shift 2
for p in "$@"; do
  wt=${wtp}${p}
  [ -f $wt/_seed/patch.diff ] || { echo "$p: not ready"; continue; }
  git -C $wt diff -- taskiq > /tmp/cur_$p.diff
  if ! diff -q /tmp/cur_$p.diff $wt/_seed/patch.diff >/dev/null; then echo "$p: worktree diff differs from delivered patch (using worktree diff)"; fi
  id="${pre}${p#C}-${p}"
  needs=$(head -c 700 $wt/_seed/notes.md | tr '\n' ' ' | sed 's/"/'"'"'/g')
  $(dirname $0)/import_seed.sh "$id" "$wt" "$p" "$p" "$needs" >/dev/null && echo "$p: imported as $id"
done

#!/venv/bin/python
"""Mutation survey: machine-generated single-edit mutants of the files the properties are anchored in.

For every sampled mutant (applied to a private scratch worktree of /repo under /tmp, removed afterwards):
  1. the module must still compile;
  2. the repository's own test suite is run: a mutant the tests kill is of no interest here;
  3. for a mutant the tests let through, the checks of the properties anchored in that file run with a
     fraction of the quick tier's runs (VERIF_RUNS_DIV) and stop at the first one that reports a violation.
The output lists the survivors (tests pass, no check objects) for manual triage: each is either an
equivalent mutant / a behaviour no property speaks about, or a gap in a check.

  tools/mutation_survey.py --sample 200 --seed 1 --workers 4 --out /tmp/survey.json [--files a.py b.py]
"""
import argparse
import ast
import json
import os
import random
import shutil
import subprocess
import sys
import tempfile
import threading
import time

VERIF = os.environ.get("SURVEY_VERIF") or os.path.dirname(os.path.dirname(os.path.abspath(__file__)))

TARGETS = {
    "taskiq/receiver/receiver.py": ["C01", "C02", "C03", "C04", "C05", "C07", "C06", "C10", "C12", "C11", "C08", "C09"],
    "taskiq/receiver/params_parser.py": ["C08", "C06"],
    "taskiq/kicker.py": ["C09", "C10", "C08", "C11", "C16"],
    "taskiq/context.py": ["C09", "C06", "C01"],
    "taskiq/labels.py": ["C09", "C07", "C11"],
    "taskiq/message.py": ["C09", "C08", "C06"],
    "taskiq/middlewares/retry_middleware.py": ["C11", "C09"],
    "taskiq/cli/scheduler/run.py": ["C15", "C14", "C13", "C16"],
    "taskiq/scheduler/scheduler.py": ["C16", "C15"],
    "taskiq/schedule_sources/label_based.py": ["C16", "C15"],
    "taskiq/cli/worker/process_manager.py": ["C17", "C18"],
    "taskiq/api/receiver.py": ["C03", "C04"],
    "taskiq/api/scheduler.py": ["C15"],
    "taskiq/cli/worker/run.py": ["C05", "C03", "C02", "C04", "C08", "C12"],
    "taskiq/cli/worker/args.py": ["C02", "C05", "C04", "C12", "C08"],
    "taskiq/abc/broker.py": ["C01", "C09", "C10", "C08", "C12"],
    "taskiq/utils.py": ["C10", "C16", "C12"],
    "taskiq/formatters/proxy_formatter.py": ["C08", "C09"],
    "taskiq/formatters/json_formatter.py": ["C08", "C09"],
    "taskiq/serializers/json_serializer.py": ["C08", "C09"],
    "taskiq/serializers/pickle.py": ["C08", "C09"],
    "taskiq/brokers/inmemory_broker.py": ["C12"],
    "taskiq/brokers/shared_broker.py": ["C09", "C01"],
    "taskiq/decor.py": ["C09", "C08", "C16"],
    "taskiq/compat.py": ["C08", "C06"],
    "taskiq/scheduler/scheduled_task/v2.py": ["C16", "C15", "C13"],
    "taskiq/scheduler/scheduled_task/cron_spec.py": ["C16", "C13"],
    "taskiq/scheduler/created_schedule.py": ["C16"],
    "taskiq/abc/schedule_source.py": ["C16", "C15"],
    "taskiq/abc/middleware.py": ["C10"],
    "taskiq/acks.py": ["C02"],
}

CMP = {ast.Eq: "!=", ast.NotEq: "==", ast.Lt: "<=", ast.LtE: "<", ast.Gt: ">=", ast.GtE: ">", ast.Is: "is not", ast.IsNot: "is",
       ast.In: "not in", ast.NotIn: "in"}


def seg(src_lines, node):
    """(start offset, end offset) of a node in the source text."""
    def off(line, col):
        return sum(len(x) for x in src_lines[: line - 1]) + len(src_lines[line - 1].encode()[:col].decode())
    return off(node.lineno, node.col_offset), off(node.end_lineno, node.end_col_offset)


def gen_mutants(relpath, src):
    tree = ast.parse(src)
    lines = src.splitlines(keepends=True)
    out = []
    doc_nodes = set()
    for n in ast.walk(tree):
        if isinstance(n, (ast.FunctionDef, ast.AsyncFunctionDef, ast.ClassDef, ast.Module)) and n.body and isinstance(n.body[0], ast.Expr) \
                and isinstance(getattr(n.body[0], "value", None), ast.Constant) and isinstance(n.body[0].value.value, str):
            doc_nodes.add(id(n.body[0]))

    def is_log(node):
        s = ast.get_source_segment(src, node) or ""
        return s.lstrip().startswith(("logger.", "warnings.", "await logger"))

    def add(node, new_text, op):
        a, b = seg(lines, node)
        out.append({"file": relpath, "line": node.lineno, "op": op, "old": src[a:b][:120], "new": new_text[:120], "a": a, "b": b, "text": new_text})

    skip_inside = []
    for n in ast.walk(tree):
        if isinstance(n, ast.If) and isinstance(n.test, ast.Name) and n.test.id == "TYPE_CHECKING":
            skip_inside.append((n.lineno, n.end_lineno))

    def skipped(node):
        return any(a <= node.lineno <= b for a, b in skip_inside)

    for n in ast.walk(tree):
        if not hasattr(n, "lineno") or skipped(n):
            continue
        if isinstance(n, ast.Compare) and len(n.ops) == 1 and type(n.ops[0]) in CMP:
            l = ast.get_source_segment(src, n.left)
            r = ast.get_source_segment(src, n.comparators[0])
            add(n, f"{l} {CMP[type(n.ops[0])]} {r}", "cmp")
        elif isinstance(n, ast.BoolOp):
            parts = [ast.get_source_segment(src, v) for v in n.values]
            joiner = " or " if isinstance(n.op, ast.And) else " and "
            add(n, "(" + joiner.join(f"({p})" for p in parts) + ")", "boolop")
        elif isinstance(n, (ast.If, ast.While)) and not (isinstance(n.test, ast.Constant)):
            t = ast.get_source_segment(src, n.test)
            add(n.test, f"not ({t})", "negate")
        elif isinstance(n, ast.IfExp):
            t = ast.get_source_segment(src, n.test)
            add(n.test, f"not ({t})", "negate-ifexp")
        elif isinstance(n, ast.Expr) and id(n) not in doc_nodes and not is_log(n) and isinstance(n.value, (ast.Call, ast.Await)):
            add(n, "pass", "del-stmt")
        elif isinstance(n, (ast.Assign, ast.AugAssign)) and not is_log(n):
            if isinstance(n, ast.AugAssign):
                add(n, "pass", "del-augassign")
            elif isinstance(n.value, ast.Constant) and isinstance(n.value.value, bool):
                add(n.value, str(not n.value.value), "flip-bool")
        elif isinstance(n, ast.Constant) and isinstance(n.value, (int, float)) and not isinstance(n.value, bool):
            add(n, repr(n.value + 1), "const+1")
        elif isinstance(n, ast.Break):
            add(n, "continue", "break->continue")
        elif isinstance(n, ast.Continue):
            add(n, "break", "continue->break")
        elif isinstance(n, ast.Return) and n.value is not None and not (isinstance(n.value, ast.Constant) and n.value.value is None):
            add(n, "return None", "return-none")
        elif isinstance(n, ast.keyword) and isinstance(n.value, ast.Constant) and isinstance(n.value.value, bool):
            add(n.value, str(not n.value.value), "flip-kw-bool")
        elif isinstance(n, ast.UnaryOp) and isinstance(n.op, ast.Not):
            add(n, ast.get_source_segment(src, n.operand), "drop-not")
        elif isinstance(n, ast.BinOp) and isinstance(n.op, (ast.Add, ast.Sub)):
            l = ast.get_source_segment(src, n.left)
            r = ast.get_source_segment(src, n.right)
            add(n, f"{l} {'-' if isinstance(n.op, ast.Add) else '+'} {r}", "plus-minus")
    # drop mutants inside logging calls / docstrings
    res = []
    for m in out:
        line = lines[m["line"] - 1].strip()
        if line.startswith(("logger.", '"', "'", "f\"", "raise ", "warnings.")) and m["op"] in ("const+1", "plus-minus"):
            continue
        res.append(m)
    return res


def run(cmd, **kw):
    return subprocess.run(cmd, capture_output=True, text=True, **kw)


def worker(idx, queue, results, lock, div, check_jobs):
    tmp = tempfile.mkdtemp(prefix=f"taskiq_ms{idx}_")
    wt = os.path.join(tmp, "repo")
    r = run(["git", "-C", "/repo", "worktree", "add", "--detach", wt, "HEAD"])
    if r.returncode:
        print("worktree failed", r.stderr, flush=True)
        return
    try:
        while True:
            with lock:
                if not queue:
                    break
                m = queue.pop(0)
            path = os.path.join(wt, m["file"])
            orig = open(path).read()
            mutated = orig[: m["a"]] + m["text"] + orig[m["b"]:]
            rec = {k: m[k] for k in ("file", "line", "op", "old", "new")}
            t0 = time.time()
            try:
                try:
                    compile(mutated, path, "exec")
                except SyntaxError:
                    rec["verdict"] = "does-not-compile"
                    continue
                open(path, "w").write(mutated)
                env = dict(os.environ, PYTHONPATH=wt, PYTHONDONTWRITEBYTECODE="1")
                try:
                    pt = run(["/venv/bin/python", "-m", "pytest", "-q", "-p", "no:cacheprovider", "--timeout=120", "--continue-on-collection-errors"],
                             env=env, cwd=wt, timeout=600)
                    tail = pt.stdout.strip().splitlines()[-1] if pt.stdout.strip() else ""
                    tests_ok = " failed" not in tail and "146 passed" in tail
                except subprocess.TimeoutExpired:
                    tests_ok = False
                    tail = "timeout"
                rec["pytest"] = tail[:80]
                if not tests_ok:
                    rec["verdict"] = "killed-by-tests"
                    continue
                cenv = dict(os.environ, VERIF_REPO=wt, VERIF_EVIDENCE_DIR=os.path.join(tmp, "ev"), VERIF_REPLAY_DIR=os.path.join(tmp, "rp"),
                            VERIF_MIN_S="0", VERIF_RUNS_DIV=str(div), VERIF_JOBS=str(check_jobs), PYTHONDONTWRITEBYTECODE="1")
                rec["verdict"] = "SURVIVED"
                rec["checks"] = {}
                for prop in TARGETS[m["file"]]:
                    try:
                        c = run([os.path.join(VERIF, "check"), prop, "--tier", "quick"], env=cenv, timeout=900)
                    except subprocess.TimeoutExpired:
                        rec["checks"][prop] = "timeout"
                        rec["verdict"] = "detected"
                        rec["by"] = prop + " (hang)"
                        break
                    hits = [ln for ln in c.stdout.splitlines() if ln.startswith("violation class=")]
                    rec["checks"][prop] = c.returncode
                    if c.returncode != 0 and not (c.returncode == 1 and "VIOLATION property=" in c.stdout):
                        rec["checks"][prop] = f"check-error exit={c.returncode}"
                        rec["check_error"] = (c.stdout.strip().splitlines()[-1][:160] if c.stdout.strip() else c.stderr[-200:])
                        continue
                    if c.returncode == 1:
                        rec["verdict"] = "detected"
                        rec["by"] = prop
                        rec["class"] = hits[0].split(" ")[1] if hits else (c.stdout.strip().splitlines()[-1][:120] if c.stdout.strip() else c.stderr[-200:])
                        break
            finally:
                open(path, "w").write(orig)
                rec["secs"] = round(time.time() - t0, 1)
                with lock:
                    results.append(rec)
                    print(f"[{len(results)}] {rec['file']}:{rec['line']} {rec['op']} {rec['old'][:50]!r} -> {rec['new'][:50]!r}: {rec['verdict']} {rec.get('by', '')} {rec.get('class', '')}", flush=True)
    finally:
        run(["git", "-C", "/repo", "worktree", "remove", "--force", wt])
        shutil.rmtree(tmp, ignore_errors=True)


def main():
    ap = argparse.ArgumentParser()
    ap.add_argument("--sample", type=int, default=100)
    ap.add_argument("--seed", type=int, default=1)
    ap.add_argument("--workers", type=int, default=4)
    ap.add_argument("--check-jobs", type=int, default=4)
    ap.add_argument("--div", type=int, default=6)
    ap.add_argument("--out", default="/tmp/mutation_survey.json")
    ap.add_argument("--files", nargs="*")
    ap.add_argument("--list", action="store_true")
    ap.add_argument("--retest", help="result file of an earlier survey: run only the mutants that SURVIVED there")
    a = ap.parse_args()
    allm = []
    for rel in TARGETS:
        if a.files and rel not in a.files and os.path.basename(rel) not in a.files:
            continue
        src = open(os.path.join("/repo", rel)).read()
        allm.extend(gen_mutants(rel, src))
    print(f"{len(allm)} candidate mutants in {len(TARGETS)} files", flush=True)
    if a.list:
        for m in allm:
            print(m["file"], m["line"], m["op"], repr(m["old"][:60]), "->", repr(m["new"][:60]))
        return 0
    rnd = random.Random(a.seed)
    rnd.shuffle(allm)
    if a.retest:
        keep = {(r["file"], r["line"], r["op"], r["old"], r["new"]) for r in json.load(open(a.retest)) if r["verdict"] == "SURVIVED"}
        allm = [m for m in allm if (m["file"], m["line"], m["op"], m["old"], m["new"]) in keep]
        print(f"retesting {len(allm)} survivors of {a.retest}", flush=True)
    queue = allm[: a.sample]
    results = []
    lock = threading.Lock()
    ths = [threading.Thread(target=worker, args=(i, queue, results, lock, a.div, a.check_jobs)) for i in range(a.workers)]
    for t in ths:
        t.start()
    for t in ths:
        t.join()
    run(["git", "-C", "/repo", "worktree", "prune"])
    json.dump(results, open(a.out, "w"), indent=1)
    counts = {}
    for r in results:
        counts[r["verdict"]] = counts.get(r["verdict"], 0) + 1
    print("summary:", counts)
    for r in results:
        if r["verdict"] == "SURVIVED":
            print("SURVIVOR", r["file"], r["line"], r["op"], repr(r["old"]), "->", repr(r["new"]))
    return 0


if __name__ == "__main__":
    sys.exit(main())

#!/bin/bash
# Continuous background soak: quick tier of every claimed property with rotating VERIF_SEED.
# usage: tools/soak.sh <first seed> <last seed> [jobs]     (evidence/replays go to a scratch dir, only alarms are printed)
cd "$(dirname "$0")/.."
first=${1:-1000}; last=${2:-1100}; jobs=${3:-6}
out=${SOAK_DIR:-/tmp/taskiq_soak}
mkdir -p "$out"
for s in $(seq "$first" "$last"); do
  for p in C01 C02 C03 C04 C05 C06 C07 C08 C09 C10 C11 C12 C13 C14 C15 C16 C17 C18; do
    VERIF_JOBS=$jobs VERIF_SEED=$s VERIF_EVIDENCE_DIR=$out/ev VERIF_REPLAY_DIR=$out/rp ./check $p 2>&1 \
      | grep -E "VIOLATION|^violation|HARNESS|Traceback|BrokenProcessPool" | sed "s/^/seed $s $p: /"
  done
  echo "seed $s done $(date +%H:%M:%S)"
done

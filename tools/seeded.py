#!/venv/bin/python
"""Run the checks against the independently written breaking changes kept in /verif/seeded/<id>/.

For each seeded change: a scratch worktree of /repo (HEAD) is created under /tmp, patch.diff is
applied there, the demonstration is run with and without the patch, optionally the repository's
own test suite is run with the patch, then the quick check(s) named in meta.json run against the
scratch tree (VERIF_REPO). The worktree is removed afterwards. /repo itself is never touched.

  tools/seeded.py [--pytest] [ids...]
"""
import json
import os
import shutil
import subprocess
import sys
import tempfile

VERIF = os.path.dirname(os.path.dirname(os.path.abspath(__file__)))


def run(cmd, **kw):
    return subprocess.run(cmd, capture_output=True, text=True, **kw)


def main(argv):
    with_pytest = "--pytest" in argv
    sel = [a for a in argv if not a.startswith("--")]
    root = os.path.join(VERIF, "seeded")
    rows = []
    for sid in sorted(os.listdir(root)):
        d = os.path.join(root, sid)
        if not os.path.isdir(d) or (sel and sid not in sel):
            continue
        meta = json.load(open(os.path.join(d, "meta.json")))
        tmp = tempfile.mkdtemp(prefix="taskiq_seed_")
        wt = os.path.join(tmp, "repo")
        try:
            r = run(["git", "-C", "/repo", "worktree", "add", "--detach", wt, "HEAD"])
            if r.returncode:
                rows.append((sid, "worktree failed"))
                continue
            env = dict(os.environ, PYTHONPATH=wt)
            demo = os.path.join(d, meta.get("demo", "demo.py"))
            before = run(["/venv/bin/python", demo], env=env, cwd=wt, timeout=300)
            ap = run(["git", "-C", wt, "apply", os.path.join(d, "patch.diff")])
            if ap.returncode:
                rows.append((sid, "patch does not apply: " + ap.stderr.strip()[:200]))
                continue
            after = run(["/venv/bin/python", demo], env=env, cwd=wt, timeout=300)
            res = {"demo_without": before.returncode, "demo_with": after.returncode}
            if with_pytest:
                pt = run(["/venv/bin/python", "-m", "pytest", "-q", "-p", "no:cacheprovider", "--timeout=900", "--continue-on-collection-errors"],
                         env=env, cwd=wt, timeout=1800)
                res["pytest"] = pt.stdout.strip().splitlines()[-1] if pt.stdout.strip() else "?"
            cenv = dict(os.environ, VERIF_REPO=wt, VERIF_EVIDENCE_DIR=os.path.join(tmp, "ev"), VERIF_REPLAY_DIR=os.path.join(tmp, "rp"), VERIF_MIN_S="3")
            det = {}
            for prop in meta["checks"]:
                c = run([os.path.join(VERIF, "check"), prop, "--tier", meta.get("tier", "quick")], env=cenv, timeout=3600)
                hits = [ln for ln in c.stdout.splitlines() if ln.startswith("violation class=")]
                det[prop] = {"exit": c.returncode, "classes": [h.split(" ")[1] for h in hits], "first": hits[0][:220] if hits else None}
            res["checks"] = det
            rows.append((sid, res))
        finally:
            run(["git", "-C", "/repo", "worktree", "remove", "--force", wt])
            shutil.rmtree(tmp, ignore_errors=True)
    run(["git", "-C", "/repo", "worktree", "prune"])
    bad = 0
    for sid, res in rows:
        if isinstance(res, str):
            print(sid, res)
            bad += 1
            continue
        caught = [p for p, v in res["checks"].items() if v["exit"] == 1]
        print(f"{sid}: demo without/with patch exit={res['demo_without']}/{res['demo_with']}" + (f" pytest: {res['pytest']}" if "pytest" in res else "") +
              f" | caught by: {caught or 'NONE'}")
        for p, v in res["checks"].items():
            print(f"    {p}: exit={v['exit']} {v['first'] or ''}")
        if not caught:
            bad += 1
    return 1 if bad else 0


if __name__ == "__main__":
    sys.exit(main(sys.argv[1:]))

import sys, json, subprocess
pid, files = sys.argv[1], sys.argv[2]
tag = sys.argv[3]
used=json.load(open('/tmp/used.json')).get(pid, [])
base=subprocess.run(["python3","/tmp/agent_prompt.py",pid],capture_output=True,text=True).stdout.replace(f"/tmp/seed_{pid}", f"/tmp/seed3_{tag}")
base=base.replace("with the change reverted (`git -C /tmp/seed3_%s stash` then `git -C /tmp/seed3_%s stash pop`)" % (tag, tag), "with the change reverted (see the git apply -R recipe below; never git stash)")
extra = "\n\nAdditional constraints:\n * Do NOT use `git stash` anywhere (the stash is shared between worktrees of this repository and other people are working in sibling worktrees). To check the unchanged state use: `git -C <wt> diff -- taskiq > /tmp/<your-own-name>.diff; git -C <wt> apply -R /tmp/<your-own-name>.diff; ...; git -C <wt> apply /tmp/<your-own-name>.diff`.\n * Make your change in (one or two of) these files, NOT in taskiq/receiver/receiver.py unless listed here: " + files + "\n * These ideas were already used by others for this property - do NOT reuse them or a close variant:\n" + "".join(f"     - {u}\n" for u in used)
print(base + extra)

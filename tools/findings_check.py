#!/venv/bin/python
"""Replays every finding kept in known_findings.json against the current /repo tree:
 * status open  -> the replay must still reproduce its violation class (the defect is still there, the check still sees it);
 * status fixed -> the replay must NOT reproduce (the repair holds; a fixed entry suppresses nothing, so a return would be reported).
"""
import json
import os
import subprocess
import sys

VERIF = os.path.dirname(os.path.dirname(os.path.abspath(__file__)))


ORIG = "b702615"   # the pinned commit this task started from (before any fix: commit)


def main() -> int:
    kf = json.load(open(os.path.join(VERIF, "known_findings.json")))["findings"]
    bad = 0
    orig = "--orig" in sys.argv
    env = dict(os.environ)
    wt = None
    if orig:
        # every finding, fixed or open, must reproduce with its recorded class on the original tree:
        # in particular a fixed defect must not be swallowed by an open known-finding class
        import tempfile
        wt = os.path.join(tempfile.mkdtemp(prefix="taskiq_orig_"), "repo")
        subprocess.run(["git", "-C", "/repo", "worktree", "add", "--detach", wt, ORIG], capture_output=True)
        env["VERIF_REPO"] = wt
    for e in kf:
        rp = os.path.join(VERIF, e["replay"])
        r = subprocess.run([os.path.join(VERIF, "check"), "--replay", rp], capture_output=True, text=True, timeout=600, env=env)
        reproduced = r.returncode == 1
        want = True if orig else e["status"] == "open"
        ok = reproduced == want
        print(f"{'ok ' if ok else 'BAD'} {e['property']} {e['class']} status={e['status']} reproduced={reproduced}")
        if not ok:
            bad += 1
    if wt is not None:
        subprocess.run(["git", "-C", "/repo", "worktree", "remove", "--force", wt], capture_output=True)
        subprocess.run(["git", "-C", "/repo", "worktree", "prune"], capture_output=True)
    return 1 if bad else 0


if __name__ == "__main__":
    sys.exit(main())

import sys, json, subprocess
pid, tag = sys.argv[1], sys.argv[2]
used=json.load(open('/tmp/used.json')).get(pid, [])
base=subprocess.run(["python3","/tmp/agent_prompt.py",pid],capture_output=True,text=True).stdout.replace(f"/tmp/seed_{pid}", f"/tmp/seed4_{tag}")
base=base.replace("with the change reverted (`git -C /tmp/seed4_%s stash` then `git -C /tmp/seed4_%s stash pop`)" % (tag, tag), "with the change reverted (see the git apply -R recipe below; never git stash)")
extra = ("\n\nAdditional constraints:\n * Do NOT use `git stash` anywhere (the stash is shared between worktrees of this repository and other people are working in sibling worktrees). To check the unchanged state use: `git -C <wt> diff -- taskiq > /tmp/<your-own-name>.diff; git -C <wt> apply -R /tmp/<your-own-name>.diff; ...; git -C <wt> apply /tmp/<your-own-name>.diff`.\n"
 " * STRONGLY PREFERRED shape for this round: TWO cooperating edits at two different sites (ideally two different functions or two different files) that each look harmless or even like an improvement on their own, and only break the property together - or a single edit whose effect depends on state left behind by an earlier, unrelated operation (a history of several operations). Read the whole package first; look for less obvious places than the central loop.\n"
 " * These ideas were already used by others for this property - do NOT reuse them or a close variant:\n" + "".join(f"     - {u}\n" for u in used))
print(base + extra)

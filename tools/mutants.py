#!/venv/bin/python
"""Sensitivity self-test: hand-made mutants of /repo, each applied to a scratch worktree
under /tmp (removed afterwards); the corresponding quick check must report a VIOLATION.

  tools/mutants.py            # all mutants
  tools/mutants.py M03 M07    # selected
"""
import json
import os
import shutil
import subprocess
import sys
import tempfile

VERIF = os.path.dirname(os.path.dirname(os.path.abspath(__file__)))
MUTANTS = json.load(open(os.path.join(VERIF, "tools", "mutants.json")))


def run(cmd, **kw):
    return subprocess.run(cmd, capture_output=True, text=True, **kw)


def main(argv):
    sel = set(argv)
    results = []
    for m in MUTANTS:
        if sel and m["id"] not in sel:
            continue
        tmp = tempfile.mkdtemp(prefix="taskiq_mut_")
        wt = os.path.join(tmp, "repo")
        try:
            r = run(["git", "-C", "/repo", "worktree", "add", "--detach", wt, "HEAD"])
            if r.returncode:
                print(m["id"], "worktree failed", r.stderr)
                continue
            path = os.path.join(wt, m["file"])
            src = open(path).read()
            if m["old"] not in src:
                results.append((m["id"], m["property"], "STALE (pattern not found)"))
                continue
            open(path, "w").write(src.replace(m["old"], m["new"], 1))
            env = dict(os.environ, VERIF_REPO=wt, VERIF_EVIDENCE_DIR=os.path.join(tmp, "ev"), VERIF_REPLAY_DIR=os.path.join(tmp, "rp"),
                       VERIF_MIN_S="3")
            verdicts = []
            for prop in m["property"].split(","):
                r = run([os.path.join(VERIF, "check"), prop, "--tier", "quick"], env=env, timeout=900)
                hit = [ln for ln in r.stdout.splitlines() if ln.startswith("violation class=")]
                verdicts.append(f"{prop}: exit={r.returncode} " + ("; ".join(h[:140] for h in hit[:2]) if hit else "NOT DETECTED"))
            results.append((m["id"], m["property"], " | ".join(verdicts)))
        finally:
            run(["git", "-C", "/repo", "worktree", "remove", "--force", wt])
            shutil.rmtree(tmp, ignore_errors=True)
    bad = 0
    for r in results:
        print(*r)
        if "NOT DETECTED" in r[2] or "STALE" in r[2]:
            bad += 1
    run(["git", "-C", "/repo", "worktree", "prune"])
    return 1 if bad else 0


if __name__ == "__main__":
    sys.exit(main(sys.argv[1:]))

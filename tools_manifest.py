#!/venv/bin/python
"""Regenerates MANIFEST.json from the property modules that exist (run by hand, result committed)."""
import json, os, sys
VERIF = os.path.dirname(os.path.abspath(__file__))
sys.path.insert(0, VERIF); sys.path.insert(0, "/repo")
props = {json.loads(l)["id"]: json.loads(l) for l in open(os.path.join(VERIF, "properties.jsonl"))}
NA = {
 "C19": "pure function of the exception object graph: no schedule, clock, fault or interleaving enters it; deciding it is input generation, not simulation (DESIGN.md section 12)",
 "C20": "pure function of the stored payload: no schedule, clock, fault or interleaving enters it; a meaningful check is a structured payload generator, i.e. input generation (DESIGN.md section 12)",
}
TECH = json.load(open(os.path.join(VERIF, "manifest_parts.json")))
checks = []
na = []
for pid in sorted(props):
    if os.path.exists(os.path.join(VERIF, "props", pid.lower() + ".py")) and pid in TECH["checks"]:
        t = TECH["checks"][pid]
        checks.append({
            "property_id": pid,
            "quick_cmd": f"./check {pid} --tier quick",
            "thorough_cmd": f"./check {pid} --tier thorough",
            "evidence_file": f"/verif/evidence/{pid}.json",
            "replay_cmd_template": "./check --replay {path}",
            "engine": t["engine"],
            "level_claimed": {"category": "exploration", "text": t["level_text"], "design_ref": t["design_ref"]},
            "level_note": t["level_note"],
            "technique": t["technique"],
        })
    else:
        na.append({"property_id": pid, "reason": NA.get(pid, "check not built yet in this round; see DESIGN.md section 5 for the planned simulation")})
m = {
 "version": 1,
 "setup_cmd": "/venv/bin/python -c \"import sys; sys.path.insert(0,'/repo'); import taskiq, anyio, pydantic, pytz, pycron\" && chmod +x /verif/check",
 "hooks": TECH["hooks"],
 "engines": TECH["engines"],
 "checks": checks,
 "notes": TECH["notes"],
 "not_applicable": na,
}
json.dump(m, open(os.path.join(VERIF, "MANIFEST.json"), "w"), indent=1)
print("checks:", [c["property_id"] for c in checks], "na:", [n["property_id"] for n in na])
